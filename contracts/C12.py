"""C12 - Merged regions are reported consistently, immediately and after reload.

Deductive kernels: Cell._set_merge (the three cases), the pack/unpack expressions of the stored merge map taken
from the source (with the side condition the packing needs derived from the documented table limits).
The picture on whole documents (all cells of the rectangle, outside untouched, merge_ranges, reload, insert/delete
after a merge) is decided by the bounded stand-in.
"""
import ast
import os

import z3

from pyvc import extract
from pyvc.ctx import VerifCtx, Contract, LoopSpec
from pyvc.plan import Plan, Lemma, BoundedStandIn
from pyvc.sym import (Executor, Obligation, Int, PObj, SInt, SStr, SBool, fresh_name, lift, as_int_term, is_intlike, Unsupported, wrap)

MAX_ROW = extract.module_const("constants", "MAX_ROW_COUNT")
MAX_COL = extract.module_const("constants", "MAX_COL_COUNT")


def T(v):
    return as_int_term(v) if is_intlike(v) else lift(v)


def build():
    from contracts import C10
    p10 = C10.build()
    ctx = p10.ctx
    plan = Plan("C12", ctx)
    for lem in p10.lemmas:
        ctx.lemmas[lem.name] = lem
    plan.native_module = os.path.join(os.path.dirname(__file__), "C12_native.py")

    # ------------------------------------------------------------------ Cell._set_merge
    ctx.constructors["CellBorder"] = lambda ex, args, kwargs, line: PObj("CellBorder", {"merged": tuple(args)})

    def sm_entry(kind):
        def entry(ex):
            cell = PObj("Cell", {"row": ex.fresh("int", "row"), "col": ex.fresh("int", "col")})
            env = {"self": cell}
            if kind == "anchor":
                env["merge_ref"] = PObj("MergeAnchor", {"size": (ex.fresh("int", "h"), ex.fresh("int", "w"))})
            elif kind == "reference":
                rect = tuple(ex.fresh("nat", f"rect{i}") for i in range(4))
                ex.assume(z3.And(rect[1].t <= 18277, rect[3].t <= 18277))
                env["merge_ref"] = PObj("MergeReference", {"rect": rect})
            else:
                env["merge_ref"] = False
            return env
        return entry

    def sm_post(kind):
        def post(ex, env):
            f = env["self"].fields
            m = env["merge_ref"]
            if kind == "anchor":
                return z3.And(z3.BoolVal(f["is_merged"] is True), T(f["size"][0]) == T(m.fields["size"][0]),
                              T(f["size"][1]) == T(m.fields["size"][1]), z3.BoolVal(f["rect"] is None and f["merge_range"] is None),
                              z3.BoolVal(f["_border"].fields["merged"] == ()))
            if kind == "reference":
                r = m.fields["rect"]
                b = f["_border"].fields["merged"]
                row, col = T(f["row"]), T(f["col"])
                tb = lambda v: v.t if isinstance(v, SBool) else z3.BoolVal(bool(v))
                return z3.And(z3.BoolVal(f["is_merged"] is False and f["size"] is None),
                              *[T(f["rect"][i]) == T(r[i]) for i in range(4)],
                              tb(b[0]) == (row > T(r[0])), tb(b[1]) == (col < T(r[3])), tb(b[2]) == (row < T(r[2])), tb(b[3]) == (col > T(r[1])))
            return z3.And(z3.BoolVal(f["is_merged"] is False and f["size"] == (1, 1) and f["rect"] is None and f["merge_range"] is None),
                          z3.BoolVal(f["_border"].fields["merged"] == ()))
        post.__name__ = {"anchor": "anchor: is_merged, size == the rectangle's size, no rect, plain border",
                         "reference": "placeholder: not is_merged, size None, rect == the rectangle, merge_range == xl_range(rect), "
                                      "inner edges flagged merged (top iff row > row_start, ...)",
                         "none": "unmerged: is_merged False, size (1,1), no rect"}[kind]
        return post

    def sm_range_post(ex, env):
        f = env["self"].fields
        r = env["merge_ref"].fields["rect"]
        e = lambda rr, cc: z3.Concat(ctx.specfns["colname"].f(T(cc)), __import__("pyvc.sym", fromlist=["py_str"]).py_str(T(rr) + 1))
        same = z3.And(T(r[0]) == T(r[2]), T(r[1]) == T(r[3]))
        return lift(f["merge_range"]) == z3.If(same, e(r[0], r[1]), z3.Concat(e(r[0], r[1]), z3.StringVal(":"), e(r[2], r[3])))
    sm_range_post.__name__ = "merge_range == A1 range text of the rectangle (by xl_range's contract)"

    for kind in ("anchor", "reference", "none"):
        plan.target(Contract("cell:Cell._set_merge", label=kind, entry=sm_entry(kind),
                             ensures=[sm_post(kind)] + ([sm_range_post] if kind == "reference" else []),
                             canaries=[lambda ex, env: z3.BoolVal(env["self"].fields["is_merged"] is None)]))

    # ------------------------------------------------------------------ the stored merge map: pack / unpack expressions
    def packing_obligations(plan_):
        fw = extract.find_function("model:_NumbersModel.recalculate_merged_cells")
        fr = extract.find_function("model:_NumbersModel.calculate_merge_cell_ranges")
        packs = {}
        for n in ast.walk(fw.node):
            if isinstance(n, ast.Call) and ast.unparse(n.func) in ("TSTArchives.CellID", "TSTArchives.TableSize"):
                for k in n.keywords:
                    if k.arg == "packedData":
                        packs[ast.unparse(n.func).split(".")[-1]] = k.value
        unpacks = {}
        for n in ast.walk(fr.node):
            if isinstance(n, ast.Assign) and isinstance(n.targets[0], ast.Tuple) and isinstance(n.value, ast.Tuple):
                names = tuple(ast.unparse(x) for x in n.targets[0].elts)
                if names in (("col_start", "row_start"), ("num_columns", "num_rows")):
                    unpacks[names] = n.value
        if set(packs) != {"CellID", "TableSize"} or len(unpacks) != 2:
            raise Unsupported("pack/unpack expressions of the merge map not found")
        c = Contract("model:_NumbersModel.recalculate_merged_cells", label="packing", safety="assert",
                     replay=lambda p_, c_, inputs, ob: {"custom": "replay_packing", "native_module": plan.native_module, "inputs": inputs},
                     search=lambda p_, c_: {"custom": "search_packing", "native_module": plan.native_module})
        c.finfo = fw
        ctx.contracts[c.key] = c
        ex = Executor(ctx, fw, c)
        ex.reset_path([])
        ex.pending, ex.extra_roots, ex.in_spec, ex.inlined, ex.used_contracts = [[]], {"heap": {}}, False, set(), set()
        out = []
        for (what, packname, names, lims) in (("origin", "CellID", ("col_start", "row_start"), (MAX_ROW, MAX_COL)),
                                               ("size", "TableSize", ("num_columns", "num_rows"), (MAX_ROW, MAX_COL))):
            a, b = z3.Int(fresh_name("row_or_h")), z3.Int(fresh_name("col_or_w"))
            lo = 0 if what == "origin" else 1
            packed = ex.eval(packs[packname], {"row_col": (SInt(a), SInt(b)), "size": (SInt(a), SInt(b)), "__closure__": None})
            obj = PObj("CellRange", {"origin": PObj("CellID", {"packedData": packed}), "size": PObj("TableSize", {"packedData": packed})})
            vals = ex.eval(unpacks[names], {"cell_range": obj, "__closure__": None})
            goal = z3.And(T(vals[0]) == b, T(vals[1]) == a)
            ob = Obligation(f"merge-map/{what}-unpack(pack(x)) == x within the table limits",
                            [a >= lo, a <= lims[0] - (1 - lo), b >= lo, b <= lims[1] - (1 - lo)], goal, "codec", fw.lineno,
                            {"inputs": {"first": SInt(a), "second": SInt(b), "what": what}})
            ob.fn, ob.contract = c.key, c
            out.append(ob)
        return out
    plan.extra_obligations.append(packing_obligations)


    # ------------------------------------------------------------------ Table.merge_cells (one range): which cells are converted
    from pyvc.sym import Custom, Bool, PDict
    A = z3.ArraySort
    AAb = lambda: A(Int, A(Int, Bool))

    class G1:
        """ghost: cells replaced by a placeholder (M), cells registered as references to the rectangle (R), anchors added"""
        def __init__(self, tag=""):
            self.M = z3.Const(fresh_name("replaced" + tag), AAb())
            self.R = z3.Const(fresh_name("referenced" + tag), AAb())
            self.anchors = z3.Int(fresh_name("anchors" + tag))

    class G2:
        def __init__(self, tag=""):
            self.SET = z3.Const(fresh_name("merge_state_set" + tag), AAb())

    def put(arr2, r, c, v):
        return z3.Store(arr2, r, z3.Store(z3.Select(arr2, r), c, v))

    def at(arr2, r, c):
        return z3.Select(z3.Select(arr2, r), c)

    class DataGrid(Custom):
        def __init__(self, env_holder):
            self.h = env_holder

        def length(self, ex):
            return self.h["g_nr"].t

        def getitem(self, ex, idx, line):
            ex.safety(z3.And(T(idx) >= 0, T(idx) < self.h["g_nr"].t), "IndexError", "row-in-table", line)
            return RowV(self.h, T(idx))

    class RowV(Custom):
        def __init__(self, h, r):
            self.h, self.r = h, r

        def length(self, ex):
            return self.h["g_nc"].t

        def getitem(self, ex, idx, line):
            ex.safety(z3.And(T(idx) >= 0, T(idx) < self.h["g_nc"].t), "IndexError", "col-in-table", line)
            return PObj("CellV", {"r": wrap(self.r), "c": wrap(T(idx)), "h": self.h})

        def setitem(self, ex, idx, v, line):
            ex.safety(z3.And(T(idx) >= 0, T(idx) < self.h["g_nc"].t), "IndexError", "col-in-table", line)
            if not (isinstance(v, PObj) and v.cls == "MergedCell"):
                raise Unsupported(f"grid store of {type(v).__name__}")
            ex.oblige(f"placeholder-carries-its-own-position@L{line}", z3.And(T(v.fields["row"]) == self.r, T(v.fields["col"]) == T(idx)), "ghost", line)
            g = self.h["g1"].fields["state"]
            g.M = put(g.M, self.r, T(idx), z3.BoolVal(True))

    def mc_entry(ex):
        nr, nc = ex.fresh("int", "num_rows"), ex.fresh("int", "num_cols")
        rs, cs, re_, ce = (ex.fresh("int", n_) for n_ in ("row_start", "col_start", "row_end", "col_end"))
        ex.assume(z3.And(0 <= rs.t, rs.t <= re_.t, re_.t < nr.t, 0 <= cs.t, cs.t <= ce.t, ce.t < nc.t))
        h = {"g_nr": nr, "g_nc": nc, "g_rs": rs, "g_cs": cs, "g_re": re_, "g_ce": ce}
        g1, g2 = G1(), G2()
        g1.M, g1.R, g1.anchors = z3.K(Int, z3.K(Int, z3.BoolVal(False))), z3.K(Int, z3.K(Int, z3.BoolVal(False))), z3.IntVal(0)
        g2.SET = z3.K(Int, z3.K(Int, z3.BoolVal(False)))
        h["g1"], h["g2"] = PObj("Ghost", {"state": g1}), PObj("Ghost", {"state": g2})
        mcs = PObj("MergeCells", {"h": h})
        model = PObj("_NumbersModel", {"g_merge": mcs})
        table = PObj("Table", {"_model": model, "_table_id": ex.fresh("int", "table_id"), "_data": DataGrid(h)})
        env = {"self": table, "cell_range": ex.fresh("str", "cell_range")}
        env.update(h)
        ex.mc_h = h
        return env

    def m_add_anchor(ex, o, a, k, l):
        h = o.fields["h"]
        g = h["g1"].fields["state"]
        r, c, size = a
        ex.oblige(f"anchor-is-the-top-left-with-the-rectangle-size@L{l}",
                  z3.And(T(r) == h["g_rs"].t, T(c) == h["g_cs"].t, T(size[0]) == h["g_re"].t - h["g_rs"].t + 1, T(size[1]) == h["g_ce"].t - h["g_cs"].t + 1), "ghost", l)
        g.anchors = g.anchors + 1

    def m_add_reference(ex, o, a, k, l):
        h = o.fields["h"]
        g = h["g1"].fields["state"]
        r, c, rect = a
        ex.oblige(f"reference-names-the-whole-rectangle@L{l}",
                  z3.And(*[T(x) == h[n_].t for x, n_ in zip(rect, ("g_rs", "g_cs", "g_re", "g_ce"))]), "ghost", l)
        g.R = put(g.R, T(r), T(c), z3.BoolVal(True))

    def m_get(ex, o, a, k, l):
        (key,) = a
        return PObj("MergeLookup", {"r": key[0], "c": key[1]})

    def m_set_merge(ex, o, a, k, l):
        h = o.fields["h"]
        look = a[0]
        ex.oblige(f"merge-state-looked-up-for-the-cell-itself@L{l}", z3.And(T(look.fields["r"]) == T(o.fields["r"]), T(look.fields["c"]) == T(o.fields["c"])), "ghost", l)
        g = h["g2"].fields["state"]
        g.SET = put(g.SET, T(o.fields["r"]), T(o.fields["c"]), z3.BoolVal(True))
    mm12 = ctx.method_models = getattr(ctx, "method_models", {})
    mm12[("MergeCells", "add_anchor")] = m_add_anchor
    mm12[("MergeCells", "add_reference")] = m_add_reference
    mm12[("MergeCells", "get")] = m_get
    mm12[("CellV", "_set_merge")] = m_set_merge
    mm12[("_NumbersModel", "merge_cells")] = lambda ex, o, a, k, l: o.fields["g_merge"]

    def in_done(h, r, c, rows_done, row_cur=None, cols_done=None):
        rs, cs, ce = h["g_rs"].t, h["g_cs"].t, h["g_ce"].t
        tl = z3.And(r == rs, c == cs)
        full = z3.And(rs <= r, r < rs + rows_done, cs <= c, c <= ce, z3.Not(tl))
        if row_cur is None:
            return full
        return z3.Or(full, z3.And(r == row_cur, cs <= c, c < cs + cols_done, z3.Not(tl)))

    def g1_facts(h, g, rows_done, row_cur=None, cols_done=None):
        r, c = z3.Int(fresh_name("mr")), z3.Int(fresh_name("mc"))
        d = in_done(h, r, c, rows_done, row_cur, cols_done)
        return z3.And(g.anchors == 1, z3.ForAll([r, c], z3.And(at(g.M, r, c) == d, at(g.R, r, c) == d)))

    def mc_inv1(ex, env):
        h = ex.mc_h
        i = T(env["_i"])
        return z3.And(i >= 0, i <= h["g_re"].t - h["g_rs"].t + 1, g1_facts(h, h["g1"].fields["state"], i),
                      T(env["row_start"]) == h["g_rs"].t, T(env["col_start"]) == h["g_cs"].t, T(env["row_end"]) == h["g_re"].t, T(env["col_end"]) == h["g_ce"].t)

    def mc_inv2(ex, env):
        h = ex.mc_h
        j, row = T(env["_j"]), T(env["row"])
        return z3.And(j >= 0, j <= h["g_ce"].t - h["g_cs"].t + 1, row >= h["g_rs"].t, row <= h["g_re"].t,
                      g1_facts(h, h["g1"].fields["state"], row - h["g_rs"].t, row, j),
                      T(env["row_start"]) == h["g_rs"].t, T(env["col_start"]) == h["g_cs"].t, T(env["row_end"]) == h["g_re"].t, T(env["col_end"]) == h["g_ce"].t)

    def g2_facts(h, g, rows_done, row_cur=None, cols_done=None):
        r, c = z3.Int(fresh_name("sr")), z3.Int(fresh_name("sc"))
        done = z3.And(0 <= r, r < rows_done, 0 <= c, c < h["g_nc"].t)
        if row_cur is not None:
            done = z3.Or(done, z3.And(r == row_cur, 0 <= c, c < cols_done))
        return z3.ForAll([r, c], z3.Implies(done, at(g.SET, r, c)))

    def mc_inv3(ex, env):
        h = ex.mc_h
        k = T(env["_k"])
        return z3.And(k >= 0, k <= h["g_nr"].t, g2_facts(h, h["g2"].fields["state"], k))

    def mc_inv4(ex, env):
        h = ex.mc_h
        l_, row = T(env["_l"]), T(env["row"])
        return z3.And(l_ >= 0, l_ <= h["g_nc"].t, row >= 0, row < h["g_nr"].t, g2_facts(h, h["g2"].fields["state"], row, row, l_))

    def havoc1(ex, env):
        ex.mc_h["g1"].fields["state"] = G1("_h")

    def havoc2(ex, env):
        ex.mc_h["g2"].fields["state"] = G2("_h")

    def mc_post(ex, env):
        h = ex.mc_h
        g1, g2 = h["g1"].fields["state"], h["g2"].fields["state"]
        r, c = z3.Int(fresh_name("pr")), z3.Int(fresh_name("pc"))
        rs, cs, re_, ce = (h[n_].t for n_ in ("g_rs", "g_cs", "g_re", "g_ce"))
        inside = z3.And(rs <= r, r <= re_, cs <= c, c <= ce, z3.Not(z3.And(r == rs, c == cs)))
        return z3.And(g1.anchors == 1, z3.ForAll([r, c], z3.And(at(g1.M, r, c) == inside, at(g1.R, r, c) == inside)),
                      z3.ForAll([r, c], z3.Implies(z3.And(0 <= r, r < h["g_nr"].t, 0 <= c, c < h["g_nc"].t), at(g2.SET, r, c))))
    mc_post.__name__ = ("one anchor at the top-left with the rectangle's size; exactly the other cells of the rectangle are replaced by placeholders "
                        "(each carrying its own position) and registered as references to the whole rectangle - none outside, none missing; then "
                        "every cell of the table has its merge state set from the lookup for its own position")

    plan.target(Contract(
        "document:Table.merge_cells", label="one-range", entry=mc_entry, ensures=[mc_post], safety="fork",
        opaque={"cell_range.split(':')": lambda ex, env: (ex.fresh("str", "start_ref"), ex.fresh("str", "end_ref")),
                "xl_cell_to_rowcol(start_cell_ref)": lambda ex, env: (ex.mc_h["g_rs"], ex.mc_h["g_cs"]),
                "xl_cell_to_rowcol(end_cell_ref)": lambda ex, env: (ex.mc_h["g_re"], ex.mc_h["g_ce"]),
                "Cell._merged_cell(self._table_id, row, col, self._model)": lambda ex, env: PObj("MergedCell", {"row": env["row"], "col": env["col"]})},
        loops={2: LoopSpec([mc_inv1], index="_i", havoc=[havoc1]), 3: LoopSpec([mc_inv2], index="_j", havoc=[havoc1]),
               4: LoopSpec([mc_inv3], index="_k", havoc=[havoc2]), 5: LoopSpec([mc_inv4], index="_l", havoc=[havoc2])},  # loop 1 is the list branch
        canaries=[]))  # quantified loop facts make 'sat' answers unreachable for the solvers; consistency of the assumed invariants follows
    # from cover/requires-satisfiable + the proved inv-entry obligations; the mutants listed in DESIGN 11 were tried by hand


    # ------------------------------------------------------------------ recalculate_merged_cells: the stored map is rebuilt from every anchor
    PACK = z3.Function("packed_pair", Int, Int, Int)  # (hi << 16 | lo): its arithmetic is the packing obligation above
    SZH, SZW = z3.Function("anchor_height", Int, Int, Int), z3.Function("anchor_width", Int, Int, Int)

    class Anchors(Custom):
        def __init__(self, n, R, C):
            self.n, self.R, self.C = n, R, C

        def length(self, ex):
            return self.n

        def getitem(self, ex, idx, line):
            if isinstance(idx, int) and idx in (0, 1):
                raise Unsupported("anchor list indexed by a constant")
            return (wrap(z3.Select(self.R, T(idx))), wrap(z3.Select(self.C, T(idx))))

    class Ranges(Custom):
        def __init__(self, ln, org, size):
            self.ln, self.org, self.size = ln, org, size

        def length(self, ex):
            return self.ln

        def method(self, ex, name, args, kwargs, line):
            if name != "append":
                raise Unsupported(f"cell_range.{name}")
            cr = args[0].fields
            self.org = z3.Store(self.org, self.ln, T(cr["origin"].fields["packedData"]))
            self.size = z3.Store(self.size, self.ln, T(cr["size"].fields["packedData"]))
            self.ln = self.ln + 1

    def rm_entry(ex):
        n = z3.Int(fresh_name("n_anchors"))
        ex.assume(n >= 0)
        anchors = Anchors(n, z3.Const(fresh_name("anchor_row"), A(Int, Int)), z3.Const(fresh_name("anchor_col"), A(Int, Int)))
        new_map = PObj("MergeRegionMap", {"cell_range": Ranges(z3.IntVal(0), z3.K(Int, z3.IntVal(0)), z3.K(Int, z3.IntVal(0)))})
        old_map = PObj("MergeRegionMap", {"cell_range": Ranges(z3.Int(fresh_name("old_len")), z3.Const(fresh_name("old_org"), A(Int, Int)), z3.Const(fresh_name("old_size"), A(Int, Int)))})
        new_id, old_id = ex.fresh("int", "new_map_id"), ex.fresh("int", "old_map_id")
        ex.assume(new_id.t != old_id.t)
        mcs = PObj("MergeCellsView", {"anchors": anchors})
        store = PObj("ObjectStoreView", {"new": (new_id, new_map)})
        ref = PObj("RefSlot", {"identifier": old_id})
        table_model = PObj("TableModelView", {"base_data_store": PObj("DataStoreView", {"merge_region_map": ref})})
        model = PObj("ModelView", {"objects": store, "g_mcs": mcs, "g_table": table_model, "g_old": (old_id, old_map)})
        return {"self": model, "table_id": ex.fresh("int", "table_id"), "g_anchors": anchors, "g_new": new_map, "g_new_id": new_id, "g_ref": ref}
    mm12[("ModelView", "merge_cells")] = lambda ex, o, a, k, l: o.fields["g_mcs"]
    mm12[("MergeCellsView", "merge_cells")] = lambda ex, o, a, k, l: o.fields["anchors"]
    mm12[("MergeCellsView", "size")] = lambda ex, o, a, k, l: (wrap(SZH(T(a[0][0]), T(a[0][1]))), wrap(SZW(T(a[0][0]), T(a[0][1]))))

    def m_create(ex, o, a, k, l):
        if a[0] != "CalculationEngine" or not (isinstance(a[1], PDict) and not a[1].d):
            raise Unsupported(f"create_object_from_dict({a[0]!r}, ...) at L{l}")
        return o.fields["new"]
    mm12[("ObjectStoreView", "create_object_from_dict")] = m_create
    mm12[("ObjectStoreView", "__getitem__")] = lambda ex, o, a, k, l: ex.entry_env["self"].fields["g_table"]
    mm12[("ModelView", "set_reference")] = lambda ex, o, a, k, l: a[0].fields.__setitem__("identifier", a[1])
    for cn in ("CellID", "TableSize", "CellRange"):
        ctx.constructors[cn] = (lambda cn_: lambda ex, args, kwargs, line: PObj(cn_, dict(kwargs)))(cn)
    from pyvc.sym import ClassRef
    ctx.extra_globals["TSTArchives"] = PObj("module", {"CellID": ClassRef("CellID"), "TableSize": ClassRef("TableSize"), "CellRange": ClassRef("CellRange"),
                                                        "MergeRegionMapArchive": ClassRef("MergeRegionMapArchive")})

    def rm_facts(env, rg, upto):
        an = env["g_anchors"]
        k = z3.Int(fresh_name("rk"))
        r, c = z3.Select(an.R, k), z3.Select(an.C, k)
        return z3.ForAll([k], z3.Implies(z3.And(0 <= k, k < upto), z3.And(z3.Select(rg.org, k) == PACK(c, r), z3.Select(rg.size, k) == PACK(SZW(r, c), SZH(r, c)))))

    def rm_inv(ex, env):
        rg = env["g_new"].fields["cell_range"]
        i = T(env["_i"])
        return z3.And(i >= 0, i <= env["g_anchors"].n, rg.ln == i, rm_facts(env, rg, i))

    def rm_havoc(ex, env):
        env["g_new"].fields["cell_range"] = Ranges(z3.Int(fresh_name("rg_len")), z3.Const(fresh_name("rg_org"), A(Int, Int)), z3.Const(fresh_name("rg_size"), A(Int, Int)))

    def rm_post(ex, env):
        rg = env["g_new"].fields["cell_range"]
        return z3.And(rg.ln == env["g_anchors"].n, rm_facts(env, rg, env["g_anchors"].n), T(env["g_ref"].fields["identifier"]) == T(env["g_new_id"]))
    rm_post.__name__ = ("the table refers to a freshly created merge map that lists every anchor of the open document, in order, each with its packed "
                        "position and packed size - whatever an earlier save stored")
    plan.target(Contract(
        "model:_NumbersModel.recalculate_merged_cells", label="rebuild", entry=rm_entry, ensures=[rm_post], safety="fork",
        opaque={"row_col[1] << 16 | row_col[0]": lambda ex, env: wrap(PACK(T(env["row_col"][1]), T(env["row_col"][0]))),
                "size[1] << 16 | size[0]": lambda ex, env: wrap(PACK(T(env["size"][1]), T(env["size"][0])))},
        loops={1: LoopSpec([rm_inv], index="_i", havoc=[rm_havoc])},
        canaries=[lambda ex, env: env["g_new"].fields["cell_range"].ln == 0]))


    # ------------------------------------------------------------------ calculate_merge_cell_ranges: what a reopened document reports
    # Every rectangle of the stored merge region map is registered - its anchor at the unpacked (row, column) with the unpacked (height,
    # width), one reference per covered cell carrying the rectangle - whatever the formula-dependency records have already contributed;
    # a merge-owner dependency record of this table registers its rectangle the same way.
    ORG, SIZ = z3.Function("C12_map_origin", Int, Int), z3.Function("C12_map_size", Int, Int)
    OWN = z3.Function("C12_owner_table", Int, Int)

    class IdxList(Custom):
        """a stored repeated field: item k is made by `make(ex, k)`"""
        def __init__(self, n, make):
            self.n, self.make = n, make

        def length(self, ex):
            return self.n

        def getitem(self, ex, idx, line):
            return self.make(ex, T(idx))

    class ObjsCM(Custom):
        def __init__(self):
            self.known = []  # (key term, object)

        def getitem(self, ex, idx, line):
            k = T(idx)
            for kt, o in self.known:
                if k.eq(kt):
                    return o
            ex.oblige(f"objects-key@L{line}: the object store is read with the table's id, a dependency archive's id or the table's merge map id", z3.BoolVal(False), "ghost", line)
            raise Unsupported("objects[...] with an unrelated key")

    class OwnerMapV(Custom):
        def getitem(self, ex, idx, line):
            return wrap(OWN(T(idx)))

    class MergeCellsByTable(Custom):
        def __init__(self, table_id, log):
            self.table_id, self.log = table_id, log

        def getitem(self, ex, idx, line):
            if not T(idx).eq(T(self.table_id)):
                ex.oblige(f"merge-state-of-this-table@L{line}: rectangles are registered with the table being read", z3.BoolVal(False), "ghost", line)
            return self.log

    def cm_entry(ex):
        table_id, base, mapid = ex.fresh("int", "table_id"), ex.fresh("int", "table_base_id"), ex.fresh("int", "merge_map_id")
        ndeps, nranges = z3.Int(fresh_name("n_dependency_archives")), z3.Int(fresh_name("n_map_ranges"))
        ex.assume(z3.And(ndeps >= 0, nranges >= 0, T(mapid) >= 0))
        objs = ObjsCM()

        def mk_record(ex, k):
            f = {n: ex.fresh("int", n) for n in ("top_left_row", "top_left_column", "bottom_right_row", "bottom_right_column")}
            return PObj("RangeRecordV", {"internal_range_reference": PObj("RangeRefV", {"owner_id": ex.fresh("int", "owner_id"), "range": PObj("RectV", f)})})

        def mk_dep_id(ex, k):
            did = ex.fresh("int", "dependency_archive_id")
            nrec = z3.Int(fresh_name("n_records"))
            ex.assume(nrec >= 0)
            objs.known.append((T(did), PObj("DependenciesV", {"owner_kind": ex.fresh("int", "owner_kind"),
                                                              "range_dependencies": PObj("RangeDepsV", {"back_dependency": IdxList(nrec, mk_record)})})))
            return did

        def mk_range(ex, k):
            ex.assume(z3.And(ORG(k) >= 0, SIZ(k) >= 0))
            return PObj("CellRangeV", {"origin": PObj("PackedV", {"packedData": wrap(ORG(k))}), "size": PObj("PackedV", {"packedData": wrap(SIZ(k))}), "g_k": wrap(k)})
        table = PObj("TableModelV", {"base_data_store": PObj("BDSV", {"merge_region_map": PObj("ReferenceV", {"identifier": mapid})})})
        objs.known.append((T(table_id), table))
        objs.known.append((T(mapid), PObj("MergeRegionMapV", {"cell_range": IdxList(nranges, mk_range)})))
        log = PObj("MergeLogV", {"anchors": wrap(z3.Int(fresh_name("anchors_before"))), "refs": wrap(z3.Int(fresh_name("refs_before"))),
                                 "last_anchor": tuple(wrap(z3.IntVal(-1)) for _ in range(4)), "last_ref": tuple(wrap(z3.IntVal(-1)) for _ in range(6))})
        model = PObj("ModelCM", {"objects": objs, "_merge_cells": MergeCellsByTable(table_id, log), "g_base": base, "g_deps": IdxList(ndeps, mk_dep_id)})
        return {"self": model, "table_id": table_id, "g_log": log, "g_mapid": mapid, "g_nranges": wrap(nranges), "g_base": base}
    mm12[("ModelCM", "owner_id_map")] = lambda ex, o, a, k, l: OwnerMapV()
    mm12[("ModelCM", "table_base_id")] = lambda ex, o, a, k, l: o.fields["g_base"]
    mm12[("ModelCM", "find_refs")] = lambda ex, o, a, k, l: o.fields["g_deps"]

    def cm_add_reference(ex, o, a, k, l):
        rect = a[2]
        if not (isinstance(rect, tuple) and len(rect) == 4):
            ex.oblige(f"reference-carries-a-rectangle@L{l}", z3.BoolVal(False), "ghost", l)
            return None
        o.fields["last_ref"] = (a[0], a[1]) + tuple(rect)
        o.fields["refs"] = wrap(T(o.fields["refs"]) + 1)
        return None

    def cm_add_anchor(ex, o, a, k, l):
        size = a[2]
        if not (isinstance(size, tuple) and len(size) == 2):
            ex.oblige(f"anchor-carries-a-size@L{l}", z3.BoolVal(False), "ghost", l)
            return None
        o.fields["last_anchor"] = (a[0], a[1]) + tuple(size)
        o.fields["anchors"] = wrap(T(o.fields["anchors"]) + 1)
        return None
    mm12[("MergeLogV", "add_reference")] = cm_add_reference
    mm12[("MergeLogV", "add_anchor")] = cm_add_anchor
    mm12[("MergeLogV", "merge_cells")] = lambda ex, o, a, k, l: ex.fresh("bool", "some_rectangles_already_known")

    def cm_havoc(tag):
        def hv(ex, env):
            lg = ex.entry_env["g_log"].fields
            lg["anchors"], lg["refs"] = wrap(z3.Int(fresh_name("anchors"))), wrap(z3.Int(fresh_name("refs")))
            lg["last_anchor"] = tuple(wrap(z3.Int(fresh_name("la"))) for _ in range(4))
            lg["last_ref"] = tuple(wrap(z3.Int(fresh_name("lr"))) for _ in range(6))
            ex.entry_env[f"g_a_{tag}"], ex.entry_env[f"g_r_{tag}"] = lg["anchors"], lg["refs"]
        return hv

    def lg(ex):
        return ex.entry_env["g_log"].fields

    def tup_eq(got, want):
        return z3.And(*[T(g) == w for g, w in zip(got, want)])

    def nonneg(x):
        return z3.If(x >= 0, x, 0)

    def cm_pre5(ex, env):
        ex.entry_env["g_a0"] = lg(ex)["anchors"]

    def a0(ex):
        return T(ex.entry_env["g_a0"])
    # dependency records (loops 1-4)
    def cm_step2(ex, env):
        rr = env["record"].fields["internal_range_reference"].fields
        rg = rr["range"].fields
        tlr, tlc, brr, brc = (T(rg[n]) for n in ("top_left_row", "top_left_column", "bottom_right_row", "bottom_right_column"))
        mine = OWN(T(rr["owner_id"])) == T(ex.entry_env["g_base"])
        before = T(ex.entry_env["g_a_2"])
        if "_r3" not in env:  # the rectangle was not walked on this path: only right for a record of another table
            return z3.And(z3.Not(mine), T(lg(ex)["anchors"]) == before)
        return z3.If(mine, z3.And(T(lg(ex)["anchors"]) == before + 1, tup_eq(lg(ex)["last_anchor"], (tlr, tlc, brr - tlr + 1, brc - tlc + 1)),
                                  T(env["_r3"]) == nonneg(brr + 1 - tlr)),
                     T(lg(ex)["anchors"]) == before)

    def cm_step3(ex, env):
        return z3.And(T(env["row"]) == T(env["row_start"]) + T(env["_r3"]), T(env["_c4"]) == nonneg(T(env["col_end"]) + 1 - T(env["col_start"])))

    def cm_step_cell(idx, tag):
        def st(ex, env):
            want = tuple(T(env[n]) for n in ("row", "col", "row_start", "col_start", "row_end", "col_end"))
            return z3.And(T(env["col"]) == T(env["col_start"]) + T(env[idx]), tup_eq(lg(ex)["last_ref"], want),
                          T(lg(ex)["refs"]) == T(ex.entry_env[f"g_r_{tag}"]) + 1)
        return st
    # merge region map (loops 5-7)
    def cm_inv_map(inner):
        def inv(ex, env):
            k = T(env["_k"])
            return z3.And(T(lg(ex)["anchors"]) == a0(ex) + k, k >= 0, *([k < env["g_nranges"].t] if inner else []))
        return inv

    def cm_step5(ex, env):
        k = T(env["_k"])
        r0, c0, h, w = ORG(k) % 65536, ORG(k) / 65536, SIZ(k) % 65536, SIZ(k) / 65536
        return z3.And(T(lg(ex)["anchors"]) == a0(ex) + k + 1, tup_eq(lg(ex)["last_anchor"], (r0, c0, h, w)), T(env["_r6"]) == h,
                      T(env["row_start"]) == r0, T(env["col_start"]) == c0, T(env["row_end"]) == r0 + h - 1, T(env["col_end"]) == c0 + w - 1)

    def cm_step6(ex, env):
        k = T(env["_k"])
        return z3.And(T(env["row"]) == T(env["row_start"]) + T(env["_r6"]), T(env["_c7"]) == SIZ(k) / 65536)

    def cm_post(ex, env):
        if "g_a0" not in ex.entry_env:  # the region map was not walked on this path: only right when the table has none
            return T(env["g_mapid"]) == 0
        return z3.Implies(T(env["g_mapid"]) != 0, T(lg(ex)["anchors"]) == a0(ex) + env["g_nranges"].t)
    cm_post.__name__ = ("when the table has a merge region map, every one of its rectangles is registered (one anchor per stored range, in addition to "
                        "whatever the dependency records contributed)")

    def keep2(ex, env):
        return T(lg(ex)["anchors"]) == T(ex.entry_env["g_a_2"])
    plan.target(Contract(
        "model:_NumbersModel.calculate_merge_cell_ranges", entry=cm_entry, ensures=[cm_post], safety="fork",
        search=lambda plan_, c: {"custom": "search_reopen_merges", "native_module": plan_.native_module},
        loops={1: LoopSpec([lambda ex, env: z3.BoolVal(True)], index="_d", havoc=[cm_havoc(1)]),
               2: LoopSpec([lambda ex, env: z3.BoolVal(True)], index="_q", havoc=[cm_havoc(2)], steps=[cm_step2]),
               3: LoopSpec([keep2], index="_r3", havoc=[cm_havoc(3), lambda ex, env: ex.assume(keep2(ex, env))], steps=[cm_step3]),
               4: LoopSpec([keep2], index="_c4", havoc=[cm_havoc(4), lambda ex, env: ex.assume(keep2(ex, env))], steps=[cm_step_cell("_c4", 4)]),
               5: LoopSpec([cm_inv_map(False)], index="_k", pre=[cm_pre5], havoc=[cm_havoc(5)], steps=[cm_step5]),
               6: LoopSpec([cm_inv_map(True)], index="_r6", havoc=[cm_havoc(6)], steps=[cm_step6]),
               7: LoopSpec([cm_inv_map(True)], index="_c7", havoc=[cm_havoc(7)], steps=[cm_step_cell("_c7", 7)])},
        canaries=[lambda ex, env: z3.And(T(env["g_mapid"]) != 0, env["g_nranges"].t == 2)]))

    from contracts.shared_ground import decoded_cells_always_look_up_their_merge_state
    plan.ground.append(("decoded-cells-always-look-up-their-merge-state", decoded_cells_always_look_up_their_merge_state))

    # ------------------------------------------------------------------ Table.merge_ranges: read from the table's CURRENT cells
    # result: one A1 range per cell of the current grid that reports is_merged - origin that cell's own position, extent its own size - and
    # nothing else (no range for cells the table no longer has, whatever the model's merge map still lists)
    MRG = z3.Function("C12_cell_is_anchor", Int, Int, z3.BoolSort())
    MH, MW = z3.Function("C12_anchor_rows", Int, Int, Int), z3.Function("C12_anchor_cols", Int, Int, Int)
    NCOLS = z3.Function("C12_row_length", Int, Int)

    class CellsOfRow(Custom):
        def __init__(self, r):
            self.r = r

        def length(self, ex):
            return NCOLS(self.r)

        def getitem(self, ex, idx, line):
            c = T(idx)
            return PObj("CellMR", {"is_merged": SBool(MRG(self.r, c)), "size": (wrap(MH(self.r, c)), wrap(MW(self.r, c)))})

    class RowsMR(Custom):
        def __init__(self, n):
            self.n = n

        def length(self, ex):
            return self.n

        def getitem(self, ex, idx, line):
            ex.assume(NCOLS(T(idx)) >= 0)
            return CellsOfRow(T(idx))

    class RangeSet(Custom):
        def __init__(self):
            self.count, self.last = wrap(z3.IntVal(0)), None

        def method(self, ex, name, args, kwargs, line):
            if name != "add" or not (isinstance(args[0], PObj) and args[0].cls == "RangeText"):
                ex.oblige(f"range-added@L{line}: what is collected is an A1 range", z3.BoolVal(False), "ghost", line)
                return
            self.last, self.count = args[0], wrap(T(self.count) + 1)

    def mr_entry(ex):
        n = z3.Int(fresh_name("n_rows"))
        ex.assume(n >= 0)
        rs = RangeSet()
        return {"self": PObj("TableMR", {"_data": RowsMR(n), "_model": PObj("ModelMR", {}), "_table_id": ex.fresh("int", "table_id")}), "g_set": rs, "g_n": wrap(n)}
    plan.callee(Contract("xrefs:xl_range", label="recorded", model=lambda ex, a, k, l: PObj("RangeText", {"args": tuple(a)}), when=lambda a: True,
                         note="ghost model used by the merge_ranges contract only: records the four coordinates (xl_range itself is C10's contract)"))

    def mr_havoc(tag):
        def hv(ex, env):
            rs = ex.entry_env["g_set"]
            rs.count, rs.last = ex.fresh("int", "ranges"), None
            ex.entry_env[f"g_cnt_{tag}"] = rs.count
        return hv

    def mr_step(ex, env):
        rs = ex.entry_env["g_set"]
        r, c = T(env["_r"]), T(env["_c"])
        before = T(ex.entry_env["g_cnt_inner"])
        if rs.last is None:
            return z3.And(z3.Not(MRG(r, c)), T(rs.count) == before)
        a = rs.last.fields["args"]
        return z3.And(MRG(r, c), T(rs.count) == before + 1, z3.BoolVal(len(a) == 4), T(a[0]) == r, T(a[1]) == c, T(a[2]) == r + MH(r, c) - 1, T(a[3]) == c + MW(r, c) - 1)

    def mr_post(ex, env):
        return z3.BoolVal(env["result"] is env["g_set"])
    mr_post.__name__ = "the result is the sorted set collected from the table's current cells"
    plan.target(Contract("document:Table.merge_ranges", entry=mr_entry, ensures=[mr_post], safety="fork", use_labels={"xrefs:xl_range": "recorded"},
                         search=lambda plan_, c: {"custom": "search_reopen_merges", "native_module": plan_.native_module},
                         opaque={"set()": lambda ex, env: ex.entry_env["g_set"], "sorted(merge_cells)": lambda ex, env: env["merge_cells"]},
                         loops={1: LoopSpec([lambda ex, env: z3.BoolVal(True)], index="_r", havoc=[mr_havoc("outer")]),
                                2: LoopSpec([lambda ex, env: z3.BoolVal(True)], index="_c", havoc=[mr_havoc("inner")], steps=[mr_step])}))

    # ------------------------------------------------------------------ Table.write: the written cell keeps the merge state of ITS position
    class GridW(Custom):
        """self._data of Table.write: one store at (row, col), later reads of the same position return the stored cell"""
        def __init__(self):
            self.stored = []  # [(row term, col term, cell)]

        def getitem(self, ex, idx, line):
            return RowW(self, T(idx))

    class RowW(Custom):
        def __init__(self, g, r):
            self.g, self.r = g, r

        def setitem(self, ex, idx, v, line):
            self.g.stored.append((self.r, T(idx), v))

        def getitem(self, ex, idx, line):
            for (r, c, v) in reversed(self.g.stored):
                if r.eq(self.r) and c.eq(T(idx)):
                    return v
            raise Unsupported("read of a grid position that was not written on this path")

    def w_entry(with_style):
        def entry(ex):
            row, col = ex.fresh("int", "row"), ex.fresh("int", "col")
            value = ex.fresh("int", "value")
            cache = PObj("NameRefCache", {"dirty": False})
            model = PObj("ModelW", {"name_ref_cache": cache, "g_nhr": ex.fresh("int", "num_header_rows"), "g_nhc": ex.fresh("int", "num_header_cols")})
            grid = GridW()
            table = PObj("TableW", {"_model": model, "_table_id": ex.fresh("int", "table_id"), "_data": grid, "g_styled": []})
            return {"self": table, "args": (), "style": (PObj("StyleV", {}) if with_style else None),
                    "g_row": row, "g_col": col, "g_value": value, "g_grid": grid, "g_cache": cache, "g_model": model}
        return entry
    mm12[("TableW", "_validate_cell_coords")] = lambda ex, o, a, k, l: (ex.entry_env["g_row"], ex.entry_env["g_col"], ex.entry_env["g_value"])
    mm12[("TableW", "set_cell_style")] = lambda ex, o, a, k, l: o.fields["g_styled"].append((T(a[0]), T(a[1]), a[2]))
    mm12[("ModelW", "merge_cells")] = lambda ex, o, a, k, l: PObj("MergeCellsW", {})
    mm12[("MergeCellsW", "get")] = lambda ex, o, a, k, l: PObj("MergeLookup", {"r": a[0][0], "c": a[0][1]})
    mm12[("ModelW", "num_header_rows")] = lambda ex, o, a, k, l: o.fields["g_nhr"]
    mm12[("ModelW", "num_header_cols")] = lambda ex, o, a, k, l: o.fields["g_nhc"]
    mm12[("NameRefCache", "mark_dirty")] = lambda ex, o, a, k, l: o.fields.__setitem__("dirty", True)
    mm12[("NewCell", "_update_value")] = lambda ex, o, a, k, l: o.fields.__setitem__("g_updated", a[0])
    mm12[("NewCell", "_set_merge")] = lambda ex, o, a, k, l: o.fields.__setitem__("g_merge", a[0])

    def w_post(with_style):
        def post(ex, env):
            g = env["g_grid"]
            row, col = env["g_row"].t, env["g_col"].t
            if len(g.stored) != 1:
                return z3.BoolVal(False)
            r, c, cell = g.stored[0]
            f = cell.fields
            if not all(k_ in f for k_ in ("g_merge", "g_updated", "_table_id", "_model")) or f["_model"] is not env["g_model"]:
                return z3.BoolVal(False)
            dirty = env["g_cache"].fields["dirty"]
            dirty_t = dirty.t if isinstance(dirty, SBool) else z3.BoolVal(bool(dirty))
            styled = env["self"].fields["g_styled"]
            style_ok = (len(styled) == 1 and styled[0][2] is env["style"]) if with_style else (len(styled) == 0)
            conj = [r == row, c == col, T(f["row"]) == row, T(f["col"]) == col, T(f["value"]) == env["g_value"].t, T(f["g_updated"]) == env["g_value"].t,
                    T(f["_table_id"]) == T(env["self"].fields["_table_id"]), T(f["g_merge"].fields["r"]) == row, T(f["g_merge"].fields["c"]) == col,
                    dirty_t == z3.Or(row < env["g_model"].fields["g_nhr"].t, col < env["g_model"].fields["g_nhc"].t), z3.BoolVal(style_ok)]
            if with_style:
                conj += [styled[0][0] == row, styled[0][1] == col]
            return z3.And(*conj)
        post.__name__ = ("exactly the cell at (row, col) is replaced by the cell made from the value at that position, bound to this table and model; its "
                         "merge state is looked up for (row, col) itself; the header-label cache is invalidated iff row < number of header rows or col < "
                         "number of header columns" + ("; the style is applied to (row, col)" if with_style else "; no style is applied"))
        return post
    for lab, ws in (("plain", False), ("with-style", True)):
        plan.target(Contract("document:Table.write", label=lab, entry=w_entry(ws), ensures=[w_post(ws)], safety="fork",
                             search=lambda plan_, c: {"custom": "search_write", "native_module": plan_.native_module},
                             opaque={"Cell._from_value(row, col, value)": lambda ex, env: PObj("NewCell", {"row": env["row"], "col": env["col"], "value": env["value"]})}))

    plan.bounded.append(BoundedStandIn(
        "merges", "c12_merges.py", ["--size", "4", "--pairs", "60", "--edits", "40"],
        thorough_args=["--size", "6", "--pairs", "400", "--edits", "300"],
        bound="every rectangle in a 4x4 table (thorough 6x6: all 441) singly, 60 (400) seeded disjoint pairs given one by one or as a "
              "list, each followed by save/reopen; every single rectangle again with a write into its top-left cell; 40 (300) single rectangles followed by one row/column insertion/deletion that does "
              "not cut the rectangle, then save/reopen",
        functions=["Table.merge_cells", "Table.merge_ranges", "Cell._set_merge", "model.calculate_merge_cell_ranges",
                   "model.recalculate_merged_cells", "Document.save", "Document(path)"]))
    plan.assumptions += [
        "Table.merge_cells' loops, merge_ranges and the reload path are decided by the bounded stand-in only (the deductive "
        "kernels are _set_merge and the packing expressions)",
        "xl_range enters _set_merge through its C10 contract; CellBorder(...) is an opaque constructor recording its arguments",
        "ints mathematical; << and | on non-negative ints as arithmetic",
    ]
    plan.trusted += ["pyvc AST->SMT translation (cross-checked against CPython)", "z3 5.1.0", "cvc5 1.0.3"]
    plan.level = "other"
    plan.explanation = ("Mixed: Cell._set_merge is proved for its three cases and the merge-map packing expressions are checked "
                        "against the table limits (refuted for rows >= 65536: open known finding F-C12-3, so discharged < obligations); "
                        "the whole-document picture (all cells of the rectangle, outside untouched, merge_ranges, reload, writes and "
                        "insert/delete after a merge) is a bounded run-time-contract stand-in (open known finding F-C12-2).")
    for c_ in plan.targets:
        if getattr(c_, "search", None) is None and getattr(c_, "home", plan) is plan and (True):
            c_.search = lambda plan_, c: {"custom": "search_reopen_merges", "native_module": plan_.native_module}
    return plan

"""C07 - Every saved package is structurally sound and referentially closed.

Kernels (contract-based, real source):
  * ObjectStore.new_message_id / create_object_from_dict: with the store invariant "every stored identifier <= _max_id and every
    stored object has a file of the file store", the new identifier is not in the store, is recorded as last_object_identifier, and
    the invariant is kept (object, file-name mapping and archive file are all added for that one identifier);
  * _NumbersModel.recalculate_row_info (any number of columns, any record lengths): offset k is -1 for an absent cell, else
    (sum of the earlier records' lengths) >> 2; cell_count == number of present cells; tile_row_index == row - tile offset; with the
    lemmas ALIGNED / INCREASING / IN-BOUNDS / INT16 over those postconditions and C04's "record length is a multiple of 4, 12..116";
  * _NumbersModel.recalculate_table_data tile loop: tiles are numbered 0..len(data)>>8 consecutively, tile t holds exactly the rows
    256t .. min(256t+256, n) in order, each created through create_object_from_dict and followed by add_component_metadata for the
    same identifier; so every row is stored exactly once;
  * inventory: every create_object_from_dict call in model.py whose locator makes a new archive file ("...-{}") is followed in the same
    block by add_component_metadata for the identifier it returned (syntactic obligation over the whole module).
Reference closure, metadata and tile structure of whole saved packages: bounded stand-in (independent structural validator).
"""
import ast
import os

import z3

from pyvc.ctx import VerifCtx, Contract, LoopSpec
from pyvc.plan import Plan, Lemma, BoundedStandIn
from pyvc.sym import (Custom, Int, Str, Bool, PObj, PDict, PList, SList, SInt, SStr, SBool, SOpt, Unsupported, fresh_name, lift, wrap,
                      as_int_term, is_intlike, ClassRef)
from pyvc import extract


def T(v):
    return as_int_term(v) if is_intlike(v) else lift(v)


A = z3.ArraySort


def build():
    ctx = VerifCtx()
    plan = Plan("C07", ctx)
    plan.native_module = os.path.join(os.path.dirname(__file__), "C07_native.py")
    srch = lambda name: (lambda plan_, c: {"custom": name, "native_module": plan_.native_module})

    # ================================================================== row records
    PRES, BLEN = z3.Const("present", A(Int, Bool)), z3.Const("blen", A(Int, Int))
    PS = ctx.spec("prefix_bytes", [A(Int, Bool), A(Int, Int), Int, Int],
                  lambda f, p, b, k: z3.Implies(k >= 0, f(p, b, k) == z3.If(k == 0, z3.IntVal(0), f(p, b, k - 1) + z3.If(z3.Select(p, k - 1), z3.Select(b, k - 1), 0))),
                  None, "bytes of the records of the present cells in columns < k")
    CNT = ctx.spec("prefix_count", [A(Int, Bool), Int, Int],
                   lambda f, p, k: z3.Implies(k >= 0, f(p, k) == z3.If(k == 0, z3.IntVal(0), f(p, k - 1) + z3.If(z3.Select(p, k - 1), 1, 0))),
                   None, "number of present cells in columns < k")
    ps, cnt = PS.f, CNT.f

    class Offsets(Custom):
        def __init__(self, ln, at):
            self.ln, self.at = ln, at

        def length(self, ex):
            return self.ln

        def setitem(self, ex, idx, val, line):
            i = T(idx)
            ex.safety(z3.And(i >= -self.ln, i < self.ln), "IndexError", "offsets-index", line)
            self.at = z3.Store(self.at, i, T(val))

    class Buf(Custom):
        def __init__(self, ln):
            self.ln = ln

        def length(self, ex):
            return self.ln

    def ri_entry(ex):
        n = z3.Int(fresh_name("ncols"))
        pres, blen = z3.Const(fresh_name("present"), A(Int, Bool)), z3.Const(fresh_name("blen"), A(Int, Int))
        k = z3.Int(fresh_name("k"))
        # C04 (proved there): every record the encoder returns has a length that is a multiple of 4, at least 12 and at most 116
        ex.assume(z3.And(n >= 1, n <= 1000))
        return {"self": PObj("_NumbersModel", {}), "table_id": ex.fresh("int", "table_id"), "data": PObj("Grid", {}),
                "tile_row_offset": ex.fresh("int", "tile_row_offset"), "row": ex.fresh("int", "row"),
                "g_n": SInt(n), "g_pres": pres, "g_blen": blen}

    def to_buffer(ex, env):
        col = T(env["col"])
        e0 = ex.entry_env
        ln = z3.Select(e0["g_blen"], col)
        ex.assume(z3.And(ln >= 12, ln <= 116, ln % 4 == 0))  # the callee's postcondition (C04 encoder contracts)
        return SOpt(z3.Not(z3.Select(e0["g_pres"], col)), Buf(z3.Select(e0["g_blen"], col)))

    def init_offsets(ex, env):
        return Offsets(ex.entry_env["g_n"].t, z3.K(Int, z3.IntVal(-1)))

    def pack_offsets(ex, env):
        offs = env["offsets"]
        k = z3.Int(fresh_name("pk"))
        ex.oblige(f"pack-int16@L{ex.cur_line if hasattr(ex, 'cur_line') else 0}: every offset fits a signed 16-bit field",
                  z3.ForAll([k], z3.Implies(z3.And(0 <= k, k < offs.ln), z3.And(z3.Select(offs.at, k) >= -32768, z3.Select(offs.at, k) <= 32767))),
                  "safety", 0)
        return Offsets(offs.ln, offs.at)

    def obj_binop(ex, op, a, b, line):
        if isinstance(op, ast.Add) and isinstance(b, Buf) and isinstance(a, (bytes, Buf)):
            return Buf((len(a) if isinstance(a, bytes) else a.ln) + b.ln)
        return NotImplemented
    ctx.obj_binop = obj_binop
    ctx.constructors["TileRowInfo"] = lambda ex, args, kwargs, line: PObj("TileRowInfo", {})
    ctx.extra_globals["TSTArchives"] = PObj("module", {"TileRowInfo": ClassRef("TileRowInfo")})
    ctx.extra_globals["DEFAULT_PRE_BNC_BYTES"] = b""

    def off_spec(e0, offs, k):
        p, b = e0["g_pres"], e0["g_blen"]
        return z3.Select(offs.at, k) == z3.If(z3.Select(p, k), ps(p, b, k) / 4, -1)

    def ri_parts(ex, env):
        e0 = ex.entry_env
        col = T(env["_i"])
        st = env["cell_storage"]
        return e0["g_pres"], e0["g_blen"], e0["g_n"].t, col, env["offsets"], (z3.IntVal(len(st)) if isinstance(st, bytes) else st.ln)

    def ri_inv0(ex, env):
        p, b, n, col, offs, st_len = ri_parts(ex, env)
        return z3.And(col >= 0, col <= n, offs.ln == n, T(env["current_offset"]) == ps(p, b, col), st_len == ps(p, b, col),
                      T(env["row_info"].fields["cell_count"]) == cnt(p, col), ps(p, b, col) % 4 == 0, ps(p, b, col) <= 116 * col, ps(p, b, col) >= 0)

    def ri_inv1(ex, env):
        p, b, n, col, offs, st_len = ri_parts(ex, env)
        k = z3.Int(fresh_name("ik"))
        return z3.ForAll([k], z3.Implies(z3.And(0 <= k, k < col), off_spec(ex.entry_env, offs, k)))

    def ri_inv3(ex, env):
        p, b, n, col, offs, st_len = ri_parts(ex, env)
        k = z3.Int(fresh_name("ik"))
        return z3.ForAll([k], z3.Implies(z3.And(0 <= k, k < col), z3.And(z3.Select(offs.at, k) >= -1, z3.Select(offs.at, k) <= 29 * k)))

    def ri_inv2(ex, env):
        p, b, n, col, offs, st_len = ri_parts(ex, env)
        k = z3.Int(fresh_name("ik"))
        return z3.ForAll([k], z3.Implies(z3.And(col <= k, k < n), z3.Select(offs.at, k) == -1))

    def ri_havoc(ex, env):
        env["offsets"] = Offsets(z3.Int(fresh_name("offs_len")), z3.Const(fresh_name("offs_at"), A(Int, Int)))
        env["cell_storage"] = Buf(z3.Int(fresh_name("storage_len")))

    def ri_post(ex, env):
        e0 = ex.entry_env
        p, b, n = e0["g_pres"], e0["g_blen"], e0["g_n"].t
        r = env["result"].fields
        offs, k = r["cell_offsets"], z3.Int(fresh_name("rk"))
        st = r["cell_storage_buffer"]
        st_len = z3.IntVal(len(st)) if isinstance(st, bytes) else st.ln
        return z3.And(offs.ln == n, z3.ForAll([k], z3.Implies(z3.And(0 <= k, k < n), off_spec(e0, offs, k))),
                      st_len == ps(p, b, n), T(r["cell_count"]) == cnt(p, n), T(r["tile_row_index"]) == T(env["row"]) - T(env["tile_row_offset"]),
                      z3.BoolVal(r["has_wide_offsets"] is True), T(r["storage_version"]) == 5)
    ri_post.__name__ = ("one offset per column: -1 for an absent cell, else (bytes of the earlier present records) >> 2; buffer length == bytes "
                        "of all present records; cell_count == number of present cells; tile_row_index == row - tile_row_offset; wide offsets")

    def ri_hints(ex, env):
        e0 = ex.entry_env
        p, b = e0["g_pres"], e0["g_blen"]
        col = T(env["_i"])
        return [PS.unfold(ps, p, b, col + 1), CNT.unfold(cnt, p, col + 1), PS.unfold(ps, p, b, z3.IntVal(0)), CNT.unfold(cnt, p, z3.IntVal(0))]

    plan.target(Contract(
        "model:_NumbersModel.recalculate_row_info", entry=ri_entry, ensures=[ri_post], safety="fork", search=srch("search_row_info"),
        opaque={"data[row][col]._to_buffer()": to_buffer, "[-1] * len(data[0])": init_offsets, "len(data[row])": lambda ex, env: ex.entry_env["g_n"],
                "len(data[0])": lambda ex, env: ex.entry_env["g_n"], "pack(f'<{len(offsets)}h', *offsets)": pack_offsets},
        loops={1: LoopSpec([ri_inv0, ri_inv1, ri_inv2, ri_inv3], index="_i", havoc=[ri_havoc], hints=[ri_hints], kinds={"cell_storage": "skip", "offsets": "skip"})},
        canaries=[lambda ex, env: T(env["result"].fields["cell_count"]) == ex.entry_env["g_n"].t]))

    # lemmas over the postcondition (induction on the column)
    k, n = z3.Int("k"), z3.Int("n")
    rec = z3.ForAll([k], z3.And(z3.Select(BLEN, k) >= 12, z3.Select(BLEN, k) <= 116, z3.Select(BLEN, k) % 4 == 0))
    Pk = lambda kk: z3.And(ps(PRES, BLEN, kk) % 4 == 0, ps(PRES, BLEN, kk) >= 0, ps(PRES, BLEN, kk) <= 116 * kk)
    plan.lemma(Lemma("ALIGNED", "record lengths multiples of 4 in 12..116  =>  every prefix sum is a multiple of 4 in 0..116k (induction on k)",
                     [("base", [rec, PS.unfold(ps, PRES, BLEN, z3.IntVal(0))], Pk(z3.IntVal(0))),
                      ("step", [rec, k >= 0, Pk(k), PS.unfold(ps, PRES, BLEN, k + 1)], Pk(k + 1))],
                     instance=lambda kk: z3.Implies(kk >= 0, Pk(kk))))
    j = z3.Int("j")
    mono = lambda a, bb: z3.Implies(z3.And(0 <= a, a <= bb), ps(PRES, BLEN, a) + z3.If(z3.And(a < bb, z3.Select(PRES, a)), z3.Select(BLEN, a), 0) <= ps(PRES, BLEN, bb))
    plan.lemma(Lemma("INCREASING", "for columns a < b the record of a present cell a ends at or before the start of column b's record "
                                   "(records do not overlap, offsets strictly increase, the last record ends inside the buffer) - induction on b",
                     [("base", [rec, j >= 0], mono(j, j)),
                      ("step", [rec, 0 <= j, j <= k, mono(j, k), PS.unfold(ps, PRES, BLEN, k + 1)], mono(j, k + 1))],
                     instance=mono))
    plan.lemma(Lemma("INT16", "at most 1000 columns of records of at most 116 bytes: every stored offset (bytes >> 2) is below 32768",
                     [("bound", [0 <= k, k < 1000, Pk(k)], ps(PRES, BLEN, k) / 4 <= 32767)]))

    # ================================================================== the tile loop of recalculate_table_data
    MAXT = extract.module_const("constants", "MAX_TILE_SIZE")
    assert MAXT == 256
    AA = lambda: A(Int, A(Int, Int))

    class G:
        """ghost state of one run: the tile references appended, the rows appended to each created tile, the metadata entries"""
        def __init__(self, tag=""):
            f = lambda nm, srt: z3.Const(fresh_name(nm + tag), srt)
            self.n_tiles = z3.Int(fresh_name("n_tiles" + tag))     # tile references appended to base_data_store.tiles.tiles
            self.tid, self.ref = f("tid", A(Int, Int)), f("ref", A(Int, Int))
            self.created = z3.Int(fresh_name("created" + tag))     # objects created through create_object_from_dict
            self.nrows, self.cnt = f("nrows", A(Int, Int)), f("cnt", A(Int, Int))  # per created tile: declared numrows, rows appended
            self.row, self.off = f("row", AA()), f("off", AA())    # per created tile and position: (row, tile_row_offset) of the record
            self.meta = f("meta", A(Int, Bool))                    # identifiers given a ComponentInfo

    def g_of(env):
        return env["g"].fields["state"]

    class DataGrid(Custom):
        def __init__(self, n, nc):
            self.n, self.nc = n, nc

        def length(self, ex):
            return self.n

        def getitem(self, ex, idx, line):
            ex.safety(z3.And(T(idx) >= -self.n, T(idx) < self.n), "IndexError", "data-row-index", line)
            return Buf(self.nc)

    class RowInfos(Custom):
        def __init__(self, holder, k):
            self.holder, self.k = holder, k

        def method(self, ex, name, args, kwargs, line):
            if name != "append":
                raise Unsupported(f"rowInfos.{name}")
            g = self.holder.fields["state"]
            ri = args[0]
            c = z3.Select(g.cnt, self.k)
            g.row = z3.Store(g.row, self.k, z3.Store(z3.Select(g.row, self.k), c, T(ri.fields["row"])))
            g.off = z3.Store(g.off, self.k, z3.Store(z3.Select(g.off, self.k), c, T(ri.fields["off"])))
            g.cnt = z3.Store(g.cnt, self.k, c + 1)

    class TileList(Custom):
        def __init__(self, holder):
            self.holder = holder

        def method(self, ex, name, args, kwargs, line):
            if name != "append":
                raise Unsupported(f"tiles.{name}")
            g = self.holder.fields["state"]
            tr = args[0]
            g.tid = z3.Store(g.tid, g.n_tiles, T(tr.fields["tileid"]))
            g.ref = z3.Store(g.ref, g.n_tiles, T(tr.fields["tile"].fields["identifier"]))
            g.n_tiles = g.n_tiles + 1

    def td_entry(ex):
        n, nc, id0 = z3.Int(fresh_name("n_rows")), z3.Int(fresh_name("n_cols")), z3.Int(fresh_name("id0"))
        ex.assume(z3.And(n >= 1, nc >= 1))
        holder = PObj("Ghost", {"state": G()})
        g = holder.fields["state"]
        g.n_tiles, g.created = z3.IntVal(0), z3.IntVal(0)
        g.meta = z3.K(Int, z3.BoolVal(False))
        tiles = PObj("TileStorage", {"tiles": TileList(holder)})
        table_model = PObj("TableModel", {"base_data_store": PObj("DataStore", {"tiles": tiles})})
        model = PObj("_NumbersModel", {"objects": PObj("ObjectStore", {"holder": holder, "id0": SInt(id0)})})
        return {"self": model, "table_id": ex.fresh("int", "table_id"), "data": DataGrid(n, nc), "g": holder, "g_n": SInt(n), "g_nc": SInt(nc),
                "g_id0": SInt(id0), "g_table": table_model}

    def m_create(ex, o, a, k, l):
        g = o.fields["holder"].fields["state"]
        loc, d, cls_ = a
        if loc != "Index/Tables/Tile-{}" or not isinstance(d, PDict) or "numrows" not in d.d:
            raise Unsupported(f"create_object_from_dict({loc!r}, ...) at L{l}")
        kk = g.created
        new_id = T(o.fields["id0"]) + kk + 1  # containers.create_object_from_dict (proved above): identifiers are consecutive
        g.nrows = z3.Store(g.nrows, kk, T(d.d["numrows"]))
        g.cnt = z3.Store(g.cnt, kk, z3.IntVal(0))
        g.created = kk + 1
        return (wrap(new_id), PObj("Tile", {"rowInfos": RowInfos(o.fields["holder"], kk), "numrows": d.d["numrows"]}))

    def m_meta(ex, o, a, k, l):
        g = ex.entry_env["g"].fields["state"]
        if a[1:] != ["CalculationEngine", "Tables/Tile-{}"]:
            raise Unsupported(f"add_component_metadata{tuple(a[1:])} at L{l}")
        g.meta = z3.Store(g.meta, T(a[0]), z3.BoolVal(True))

    noop = lambda ex, o, a, k, l: None
    mm = ctx.method_models = getattr(ctx, "method_models", {})
    for nm_ in ("init_table_strings", "recalculate_row_headers", "recalculate_column_headers", "recalculate_merged_cells",
                "update_paragraph_styles", "update_cell_styles"):
        mm[("_NumbersModel", nm_)] = noop
    mm[("_NumbersModel", "add_component_metadata")] = m_meta
    mm[("_NumbersModel", "recalculate_row_info")] = lambda ex, o, a, k, l: PObj("RowInfo", {"row": a[3], "off": a[2]})
    mm[("ObjectStore", "create_object_from_dict")] = m_create
    mm[("ObjectStore", "update_object_file_store")] = noop
    mm[("TableModel", "ClearField")] = noop
    mm[("TileStorage", "ClearField")] = noop
    mm[("RefHolder", "MergeFrom")] = lambda ex, o, a, k, l: o.fields.__setitem__("identifier", a[0].fields["identifier"])
    ctx.constructors["Tile"] = lambda ex, args, kwargs, line: PObj("TileRef", {"tile": PObj("RefHolder", {})})
    ctx.constructors["Reference"] = lambda ex, args, kwargs, line: PObj("Reference", dict(kwargs))
    ctx.extra_globals["TSTArchives"] = PObj("module", {"TileRowInfo": ClassRef("TileRowInfo"), "Tile": ClassRef("TileClass"),
                                                        "TileStorage": PObj("module", {"Tile": ClassRef("Tile")})})
    ctx.extra_globals["TSPMessages"] = PObj("module", {"Reference": ClassRef("Reference")})

    def tile_facts(env, g, t, full_upto):
        """tiles 0..t-1 are complete: reference k is tile k, with identifier id0+k+1, listed in the metadata, holding rows 256k.."""
        n, id0 = env["g_n"].t, env["g_id0"].t
        k, j = z3.Int(fresh_name("tk")), z3.Int(fresh_name("tj"))
        want = lambda kk: z3.If(n - 256 * kk > 256, 256, n - 256 * kk)
        return [z3.ForAll([k], z3.Implies(z3.And(0 <= k, k < t), z3.And(
                    z3.Select(g.tid, k) == k, z3.Select(g.ref, k) == id0 + k + 1, z3.Select(g.meta, id0 + k + 1),
                    z3.Select(g.nrows, k) == want(k), z3.Select(g.cnt, k) == want(k)))),
                z3.ForAll([k, j], z3.Implies(z3.And(0 <= k, k < t, 0 <= j, j < z3.Select(g.cnt, k)), z3.And(
                    z3.Select(z3.Select(g.row, k), j) == 256 * k + j, z3.Select(z3.Select(g.off, k), j) == 256 * k)))]

    def td_outer(ex, env):
        g = g_of(env)
        t, n = T(env["tile_idx"]), env["g_n"].t
        return z3.And(t >= 0, t <= n / 256 + 1, T(env["max_tile_idx"]) == n / 256, g.n_tiles == t, g.created == t, *tile_facts(env, g, t, t))

    def td_inner(ex, env):
        g = g_of(env)
        t, n, jj = T(env["tile_idx"]), env["g_n"].t, T(env["_j"])
        rs = T(env["row_start"])
        j = z3.Int(fresh_name("nj"))
        want = z3.If(n - 256 * t > 256, 256, n - 256 * t)
        return z3.And(t >= 0, t <= n / 256, T(env["max_tile_idx"]) == n / 256, g.n_tiles == t, g.created == t + 1, rs == 256 * t,
                      T(env["row_end"]) == rs + want, T(env["tile_id"]) == env["g_id0"].t + t + 1,
                      z3.Select(g.nrows, t) == want, z3.Select(g.cnt, t) == jj, jj >= 0, jj <= want,
                      z3.ForAll([j], z3.Implies(z3.And(0 <= j, j < jj), z3.And(z3.Select(z3.Select(g.row, t), j) == rs + j,
                                                                                 z3.Select(z3.Select(g.off, t), j) == rs))),
                      *tile_facts(env, g, t, t))

    def td_havoc(ex, env):
        old = g_of(env)
        new = G("_h")
        env["g"].fields["state"] = new

    def td_post(ex, env):
        g = g_of(env)
        n, id0 = env["g_n"].t, env["g_id0"].t
        r, k, j = z3.Int(fresh_name("pr")), z3.Int(fresh_name("pk")), z3.Int(fresh_name("pj"))
        tm = env["g_table"].fields
        every_row = z3.ForAll([r], z3.Implies(z3.And(0 <= r, r < n), z3.And(
            r / 256 < g.n_tiles, r % 256 < z3.Select(g.cnt, r / 256), z3.Select(z3.Select(g.row, r / 256), r % 256) == r,
            z3.Select(z3.Select(g.off, r / 256), r % 256) == 256 * (r / 256))))
        no_extra = z3.ForAll([k, j], z3.Implies(z3.And(0 <= k, k < g.n_tiles, 0 <= j, j < z3.Select(g.cnt, k)),
                                                z3.And(256 * k + j < n, z3.Select(z3.Select(g.row, k), j) == 256 * k + j)))
        refs = z3.ForAll([k], z3.Implies(z3.And(0 <= k, k < g.n_tiles), z3.And(
            z3.Select(g.tid, k) == k, z3.Select(g.ref, k) == id0 + k + 1, z3.Select(g.meta, z3.Select(g.ref, k)),
            z3.Select(g.nrows, k) == z3.Select(g.cnt, k), z3.Select(g.cnt, k) <= 256)))
        return z3.And(g.n_tiles == n / 256 + 1, g.created == g.n_tiles, every_row, no_extra, refs,
                      T(tm["number_of_rows"]) == n, T(tm["number_of_columns"]) == env["g_nc"].t)
    td_post.__name__ = ("tiles 0..len(data)>>8, numbered consecutively, each a newly created object listed in the package metadata, each declaring "
                        "as many rows as it stores (<= 256); row r is stored exactly once: in tile r>>8 at position r&255 with tile_row_index "
                        "r&255; no tile stores a row >= len(data); number_of_rows/columns are the grid's")

    plan.target(Contract(
        "model:_NumbersModel.recalculate_table_data", entry=td_entry, ensures=[td_post], safety="fork", search=srch("search_tiles"),
        opaque={"self.objects[table_id]": lambda ex, env: ex.entry_env["g_table"]},
        loops={1: LoopSpec([td_outer], havoc=[td_havoc], kinds={"tile": "skip", "tile_dict": "skip", "tile_ref": "skip"}),
               2: LoopSpec([td_inner], index="_j", havoc=[td_havoc])},
        canaries=[lambda ex, env: g_of(env).n_tiles == env["g_n"].t / 256]))

    # ================================================================== identifiers and the object store
    def store_env(ex):
        dom = z3.Const(fresh_name("obj_dom"), A(Int, Bool))
        fmap_dom, fmap_val = z3.Const(fresh_name("map_dom"), A(Int, Bool)), z3.Const(fresh_name("map_val"), A(Int, Str))
        fs_dom = z3.Const(fresh_name("fs_dom"), A(Str, Bool))
        max_id = z3.Int(fresh_name("max_id"))
        objects, fmap, fstore = PDict(), PDict(), PDict()
        objects.sym = {"dom": dom, "val": z3.Const(fresh_name("obj_val"), A(Int, Int)), "vkind": "ref:Message"}
        fmap.sym = {"dom": fmap_dom, "val": fmap_val, "vkind": "str"}
        fstore.sym = {"dom": fs_dom, "val": z3.Const(fresh_name("fs_val"), A(Str, Int)), "vkind": "ref:IWAFile"}
        store = PObj("ObjectStore", {"_objects": objects, "_object_to_filename_map": fmap, "_file_store": fstore, "_max_id": SInt(max_id)})
        return store

    def store_inv(store):
        o, m, f = (store.fields[x].sym for x in ("_objects", "_object_to_filename_map", "_file_store"))
        i = z3.Int(fresh_name("si"))
        return z3.ForAll([i], z3.Implies(z3.Select(o["dom"], i), z3.And(i <= T(store.fields["_max_id"]), z3.Select(m["dom"], i),
                                                                         z3.Select(f["dom"], z3.Select(m["val"], i)))))
    PACKAGE_ID = extract.module_const("constants", "PACKAGE_ID")
    ctx.class_fields["Message"] = {"last_object_identifier": "int"}
    ctx.class_fields["IWAFile"] = {"n_archives": "int"}

    def nm_entry(ex):
        store = store_env(ex)
        ex.assume(store_inv(store))
        ex.assume(z3.Select(store.fields["_objects"].sym["dom"], PACKAGE_ID))
        return {"self": store, "g_max0": store.fields["_max_id"], "g_dom0": store.fields["_objects"].sym["dom"]}

    def nm_post(ex, env):
        st = env["self"]
        r = T(env["result"])
        pkg = z3.Select(st.fields["_objects"].sym["val"], PACKAGE_ID)
        return z3.And(r == env["g_max0"].t + 1, T(st.fields["_max_id"]) == r, z3.Not(z3.Select(env["g_dom0"], r)),
                      z3.Select(ex.heap_array("Message", "last_object_identifier"), pkg) == r)
    nm_post.__name__ = "returns old _max_id + 1, which no stored object has; _max_id and PackageMetadata.last_object_identifier are that value"
    plan.target(Contract("containers:ObjectStore.new_message_id", entry=nm_entry, ensures=[nm_post], safety="fork", result="int",
                         search=srch("search_store"), canaries=[lambda ex, env: T(env["result"]) == env["g_max0"].t]))
    # ================================================================== inventory call sites (complete syntactic check of model.py)
    def inventory_sites():
        import ast as _ast
        src = open(os.path.join(extract.REPO, "src", "numbers_parser", "model.py")).read()
        tree = _ast.parse(src)
        sites, bad = 0, []
        for fn in _ast.walk(tree):
            if not isinstance(fn, _ast.FunctionDef):
                continue
            stmts = [n for n in _ast.walk(fn) if isinstance(n, _ast.Assign)]
            calls = [n for n in _ast.walk(fn) if isinstance(n, _ast.Call) and isinstance(n.func, _ast.Attribute) and n.func.attr == "add_component_metadata"]
            for a in stmts:
                v = a.value
                if not (isinstance(v, _ast.Call) and isinstance(v.func, _ast.Attribute) and v.func.attr == "create_object_from_dict" and v.args):
                    continue
                loc = v.args[0]
                if not (isinstance(loc, _ast.Constant) and isinstance(loc.value, str) and "{}" in loc.value):
                    continue  # an existing archive file (no new file is made)
                if any(k.arg == "append" for k in v.keywords):
                    continue
                sites += 1
                tgt = a.targets[0]
                idname = tgt.elts[0].id if isinstance(tgt, _ast.Tuple) and isinstance(tgt.elts[0], _ast.Name) else None
                ok = False
                for c in calls:
                    if c.lineno > a.lineno and c.args and isinstance(c.args[0], _ast.Name) and c.args[0].id == idname and len(c.args) >= 3 \
                            and isinstance(c.args[2], _ast.Constant) and "Index/" + c.args[2].value == loc.value:
                        ok = True
                if not ok:
                    bad.append(f"{fn.name}@L{a.lineno}: object created in new archive file {loc.value!r} (id {idname}) is never passed to "
                               f"add_component_metadata with the matching locator")
        if sites == 0:
            return False, "no create_object_from_dict call with a new-file locator found (anchor lost)", 0
        return (not bad), bad[:5], sites
    plan.ground.append(("inventory-call-sites", inventory_sites))


    def created_objects_referenced():
        """every identifier returned by create_object_from_dict in model.py flows into a reference: {"identifier": id}, identifier=id,
        set_reference(..., id), `.identifier = id`, a Reference(...) argument, or is returned to the caller"""
        import ast as _ast
        src = open(os.path.join(extract.REPO, "src", "numbers_parser", "model.py")).read()
        tree = _ast.parse(src)
        sites, bad = 0, []
        for fn in _ast.walk(tree):
            if not isinstance(fn, _ast.FunctionDef):
                continue
            for a in [n for n in _ast.walk(fn) if isinstance(n, _ast.Assign)]:
                v = a.value
                if not (isinstance(v, _ast.Call) and isinstance(v.func, _ast.Attribute) and v.func.attr == "create_object_from_dict"):
                    continue
                tgt = a.targets[0]
                idname = tgt.elts[0].id if isinstance(tgt, _ast.Tuple) and isinstance(tgt.elts[0], _ast.Name) else None
                if idname is None or idname == "_":
                    continue
                sites += 1
                ok = False
                for n in _ast.walk(fn):
                    if getattr(n, "lineno", 0) <= a.lineno:
                        continue
                    if isinstance(n, _ast.Dict):
                        for k_, v_ in zip(n.keys, n.values):
                            if isinstance(k_, _ast.Constant) and k_.value == "identifier" and isinstance(v_, _ast.Name) and v_.id == idname:
                                ok = True
                    elif isinstance(n, _ast.keyword) and n.arg == "identifier" and isinstance(n.value, _ast.Name) and n.value.id == idname:
                        ok = True
                    elif isinstance(n, _ast.Call) and isinstance(n.func, _ast.Attribute) and n.func.attr == "set_reference" and \
                            any(isinstance(x, _ast.Name) and x.id == idname for x in n.args):
                        ok = True
                    elif isinstance(n, _ast.Assign) and isinstance(n.targets[0], _ast.Attribute) and n.targets[0].attr == "identifier" and \
                            isinstance(n.value, _ast.Name) and n.value.id == idname:
                        ok = True
                    elif isinstance(n, _ast.Return) and n.value is not None and any(isinstance(x, _ast.Name) and x.id == idname for x in _ast.walk(n.value)):
                        ok = True
                if not ok:
                    bad.append(f"{fn.name}@L{a.lineno}: the object created here (id {idname}) is never made the target of a reference: it is an orphan and "
                               "whatever was meant to point at it still points elsewhere")
        if sites == 0:
            return False, "no create_object_from_dict call found (anchor lost)", 0
        return (not bad), bad[:5], sites
    plan.ground.append(("created-objects-are-referenced", created_objects_referenced))
    plan.created_objects_referenced = created_objects_referenced

    # ---- create_object_from_dict
    from pyvc.sym import SRef

    def co_entry(ex):
        env = nm_entry(ex)
        store = env["self"]
        fs = store.fields["_file_store"].sym
        env.update({"iwa_file": ex.fresh("str", "iwa_file"), "object_dict": PObj("ObjectDict", {}), "cls": PObj("MessageClass", {}),
                    "append": ex.fresh("bool", "append"), "g_fs0": fs["dom"], "g_map0": store.fields["_object_to_filename_map"].sym["val"],
                    "g_mapdom0": store.fields["_object_to_filename_map"].sym["dom"]})
        n = z3.Int(fresh_name("n_paths"))
        at = z3.Const(fresh_name("paths_at"), A(Int, Str))
        i = z3.Int(fresh_name("pi"))
        ex.assume(z3.And(n >= 0, z3.ForAll([i], z3.Implies(z3.And(0 <= i, i < n), z3.Select(fs["dom"], z3.Select(at, i))))))
        env["g_paths"] = SList(n, at, "str")
        return env

    def co_requires(ex, env):
        return z3.Implies(lift(env["append"]), env["g_paths"].ln > 0)
    co_requires.__name__ = "append=True is only used for an archive file that exists"

    def co_append(ex, env):
        fs = env["self"].fields["_file_store"].sym
        if env["iwa_pathname"] is None:
            from pyvc.sym import PathEnd
            ex.oblige("append-target-exists: no archive file matches and append was requested", z3.BoolVal(False), "lookup", 0)
            raise PathEnd()
        ex.oblige("append-target-exists: the archive file appended to is in the file store", z3.Select(fs["dom"], lift(env["iwa_pathname"])), "lookup", 0)
        return None

    def co_post(ex, env):
        st = env["self"]
        o, m, f = (st.fields[x].sym for x in ("_objects", "_object_to_filename_map", "_file_store"))
        res = env["result"]
        nid = T(res[0])
        path = z3.Select(m["val"], nid)
        j = z3.Int(fresh_name("cj"))
        s_ = z3.String(fresh_name("cs"))
        return z3.And(nid == env["g_max0"].t + 1, z3.Not(z3.Select(env["g_dom0"], nid)), store_inv(st),
                      z3.ForAll([j], z3.Select(o["dom"], j) == z3.Or(z3.Select(env["g_dom0"], j), j == nid)),
                      z3.Select(m["dom"], nid), z3.Select(f["dom"], path),
                      z3.ForAll([j], z3.Implies(z3.And(z3.Select(env["g_mapdom0"], j), j != nid), z3.Select(m["val"], j) == z3.Select(env["g_map0"], j))),
                      z3.ForAll([s_], z3.Implies(z3.Select(env["g_fs0"], s_), z3.Select(f["dom"], s_))),
                      z3.Implies(env["g_paths"].ln > 0, path == z3.Select(env["g_paths"].at, 0)),
                      lift(res[1]) == z3.Select(o["val"], nid))
    co_post.__name__ = ("the new identifier is old _max_id + 1 and was not stored; afterwards exactly that identifier is added to the objects, it is "
                        "mapped to an archive file that is in the file store (the first matching existing file if any), no other mapping or "
                        "file is lost, and the store invariant holds")

    def fresh_ref(cls):
        return lambda ex, env: SRef(z3.Int(fresh_name("new_" + cls)), cls)

    plan.target(Contract(
        "containers:ObjectStore.create_object_from_dict", entry=co_entry, requires=[co_requires], ensures=[co_post], safety="fork",
        inline={"containers:ObjectStore.new_message_id"}, search=srch("search_store"),
        opaque={"[k for k, v in self._file_store.items() if iwa_file in k]": lambda ex, env: env["g_paths"],
                "create_iwa_segment(new_id, cls, object_dict)": lambda ex, env: PObj("Segment", {}),
                "iwa_file.format(new_id)": "str", "iwa_segment.to_dict()": lambda ex, env: PObj("SegDict", {}),
                "IWAFile.from_dict(chunks)": fresh_ref("IWAFile"), "cls(**object_dict)": fresh_ref("Message"),
                "self._file_store[iwa_pathname].chunks[0].archives.append(iwa_segment)": co_append},
        canaries=[lambda ex, env: T(env["result"][0]) == env["g_max0"].t]))

    plan.bounded.append(BoundedStandIn(
        "saved-packages", "c07_package.py", [], thorough_args=["--level", "2"], timeout=1500,
        bound="independent structural validator (ids unique and <= high-water mark, added files listed in the metadata, references of new/"
              "rewritten objects resolve, tile/row-record structure) on: new documents of 255/256/257/512 x 8 and 12 x 256/257/1000 (thorough "
              "also 513x3, 1000x2, 300x300, 2x2), 9 edit histories (tables+sheets, row/column edits, merges, styles, background images, "
              "formats + custom formats, control cells, borders, captions/names/headers/sizes) each also saved, reopened, edited and saved "
              "again (thorough: also as package folders), and a plain re-save of the 40 smallest fixtures (thorough: every fixture)",
        functions=["Document.save", "recalculate_table_data", "recalculate_row_info", "create_object_from_dict", "add_component_metadata",
                   "copy_object_to_iwa_file", "find_references", "IWork.save"]))
    plan.assumptions += [
        "protobuf messages, the data grid and the object store as ghost records; the store's three dicts as symbolic maps; callee models for "
        "the model methods the tile loop calls (recalculate_row_info by its proved postcondition; create_object_from_dict by its proved "
        "postcondition: consecutive fresh identifiers)",
        "C04 (proved there): every record _to_buffer returns is 12..116 bytes long, a multiple of 4; at most 1000 columns (MAX_COL_COUNT)",
        "reference closure and the metadata of whole packages, copy_object_to_iwa_file/find_references: bounded stand-in only",
    ]
    plan.trusted += ["pyvc AST->SMT translation (cross-checked against CPython)", "z3 5.1.0 (quantified VCs)", "cvc5 1.0.3"]
    plan.level = "other"
    plan.explanation = ("Mixed: identifier allocation and the store invariant, the row-record writer (offsets, alignment, no overlap, int16 range), "
                        "the tile loop (every row exactly once, consecutive tile ids, metadata entry per tile) and the inventory call sites are "
                        "proved; reference closure and the structure of whole saved packages are a bounded stand-in with an independent "
                        "validator, which reports the open known finding F-C07-1 (null category_owner reference).")
    # the save-time de-duplication of cell styles decides which image files get a metadata record: its key must tell apart every attribute a
    # cell style stores (C15's complete structural obligation, shared here)
    from contracts import C15 as _C15
    for _name, _fn in _C15.build().ground:
        if _name == "cell-style-key-reads-every-cell-attribute":
            plan.ground.append((_name, _fn))
    from contracts.shared_ground import allocators_are_not_memoised
    plan.ground.append(("allocators-are-not-memoised", allocators_are_not_memoised))
    return plan

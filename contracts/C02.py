"""C02 - Re-saving an unmodified document preserves everything the library reads.

Deductive core (re-verified here from the real source, in the contexts of the properties that own them):
  * cell records: C04's decoder contract (all flag words) and encoder contracts (every storable kind) with the lemmas ROUNDTRIP and
    DISJOINT - so decode(encode(decode(b))) reads the same ids, formula/control/rich-text/format references and payload words as
    decode(b): the optional fields are re-emitted at the slots the decoder reads;
  * number payloads: C01's decimal128 codec contracts and lemmas - the float read from a record is written back as a decimal whose
    correctly rounded value is that float;
  * strings: C06's DataLists contracts - after the string list is reset and re-keyed, lookup_value(lookup_key(s)).string == s.
Whole documents (every fixture and built documents, two cycles, with and without read-only accessors called first): bounded stand-in.
"""
import os

from pyvc.ctx import VerifCtx
from pyvc.plan import Plan, BoundedStandIn


def build():
    ctx = VerifCtx()
    plan = Plan("C02", ctx)
    from contracts import C01, C04, C06
    p4 = C04.build()
    plan.import_targets(p4, lambda c: True)
    for lem in p4.lemmas:
        plan.lemmas.append(lem)
    p1 = C01.build()
    plan.import_targets(p1, lambda c: c.qual in ("cell:_pack_decimal128", "cell:_unpack_decimal128"))
    for lem in p1.lemmas:
        if lem.name.startswith("D128") or lem.name == "IPOW_POS":
            plan.lemmas.append(lem)
    p6 = C06.build()
    plan.import_targets(p6, lambda c: c.qual.startswith("model:DataLists.") or c.qual == "model:_NumbersModel.table_string")
    from contracts import C07
    p7 = C07.build()  # the table writer: every row stored exactly once, in its own tile, with its own offsets
    plan.import_targets(p7, lambda c: c.qual in ("model:_NumbersModel.recalculate_table_data", "model:_NumbersModel.recalculate_row_info"))
    for lem in p7.lemmas:
        plan.lemmas.append(lem)
    # merged rectangles survive a re-save: the merge map is rebuilt from every anchor and read back completely (C12's contracts, re-verified)
    from contracts import C12
    p12 = C12.build()
    plan.import_targets(p12, lambda c: c.qual in ("model:_NumbersModel.recalculate_merged_cells", "model:_NumbersModel.calculate_merge_cell_ranges"))
    from contracts.shared_ground import keys_of_emptied_lists_not_memoised
    plan.ground.append(("keys-of-lists-emptied-on-save-are-not-memoised", keys_of_emptied_lists_not_memoised))
    plan.bounded.append(BoundedStandIn(
        "resave-cycles", "c02_resave.py", [], thorough_args=["--level", "2"], timeout=1500,
        bound="quick: the 45 smallest fixtures under tests/data + 3 documents built through the editing API (values, structure edits, "
              "headers); thorough: every fixture that opens without an unsupported-version warning; x {read-only accessors called / "
              "not called before saving} x two open/save cycles; compared per cell: class, value, formula, formatted value, merge "
              "state, bullets, hyperlinks; per table: name, order, shape, header counts, merge ranges; exempt: exactly the cells/tables "
              "the library warned about while saving",
        functions=["Document(path)", "Document.save", "recalculate_table_data", "Cell._to_buffer", "Cell._from_storage",
                   "DataLists.init/lookup_key", "ObjectStore", "IWAFile"]))
    plan.trusted += ["pyvc AST->SMT translation (cross-checked against CPython)", "z3 5.1.0", "cvc5 1.0.3"]
    plan.level = "other"
    plan.explanation = ('Mixed: cell-record re-encoding (decoder for all flag words, encoder for every storable kind, round-trip and disjointness lemmas), the decimal128 codec and the string-list re-keying are proved; whole documents over two open/save cycles are a bounded stand-in over the fixtures and built documents.')
    return plan

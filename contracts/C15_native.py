"""Native side of C15: looks for a concrete stroke sequence / style on which the real library breaks the contract (small runs of the
stand-in's cases), and the complete colour-channel / font-table ground checks."""
import os
import sys
import warnings

sys.path.insert(0, os.path.dirname(os.path.dirname(os.path.abspath(__file__))))


def _run(cases):
    from bounded import c15_styles as S
    warnings.simplefilter("ignore")
    for case in cases:
        try:
            r = S.run_case(case)
        except Exception as e:  # noqa: BLE001
            r = {"detail": f"raised {type(e).__name__}: {e}"}
        if r and not r.get("ok"):
            return {"violated": True, "detail": r["detail"], "job": {"custom": "replay_case", "case": case}}
    return {"violated": False}


def search_borders(job):
    cases = []
    for first in ((1, 1, "top", 0, 2), (1, 1, "right", 0, 1), (0, 0, "bottom", 0, 3), (2, 2, "left", 0, 1)):
        for second in ((1, 1, "top", 1, 1), (0, 1, "bottom", 1, 1), (1, 2, "left", 1, 1), (1, 1, "right", 1, 1), (1, 0, "top", 1, 3), (2, 2, "left", 1, 1),
                       (2, 1, "right", 1, 1), (0, 0, "bottom", 1, 1)):
            cases.append({"kind": "borders", "rows": 3, "cols": 3, "strokes": [list(first), list(second)]})
    return _run(cases)


def search_styles(job):
    return _run([{"kind": "styles", "seed": s, "n_styles": 1 + s % 2, "read_first": True, "image": s == 0, "modify": s % 2 == 1} for s in range(8)])


def replay_case(job):
    return _run([job["case"]])


def ground_colours(job):
    from numbers_parser.generated import TSPMessages_pb2 as TSP
    from numbers_parser.model import rgb
    bad = []
    for c in range(256):
        col = TSP.Color(model=TSP.Color.rgb, r=c / 255, g=(255 - c) / 255, b=c / 255)  # what add_cell_style / add_paragraph_style store
        got = rgb(col)
        if tuple(got) != (c, 255 - c, c):
            bad.append((c, tuple(got)))
    return {"violated": bool(bad), "detail": f"channel values that do not survive c/255 -> round(x*255): {bad[:5]}", "count": 256}


def ground_fonts(job):
    from numbers_parser.generated.fontmap import FONT_NAME_TO_FAMILY
    from numbers_parser.model import FONT_FAMILY_TO_NAME
    bad = []
    fams = sorted(set(FONT_NAME_TO_FAMILY.values()))
    for fam in fams:
        if fam not in FONT_FAMILY_TO_NAME or FONT_NAME_TO_FAMILY.get(FONT_FAMILY_TO_NAME[fam]) != fam:
            bad.append(fam)
    return {"violated": bool(bad), "detail": f"font families that do not map to a name that maps back: {bad[:5]}", "count": len(fams)}


NATIVE = {}

"""C18 - Formula tokenizer is lossless, total, and never splits a quoted string.

Ghost view of a Tokenizer:  F = formula, o = offset, tok = "".join(token), itxt = concatenation of the item
values, n_items, last item's (type, subtype), stack depth.  Main invariant
    J:  0 <= o  and  itxt + tok == F[:min(o, len F)]  and  (o > len F => tok == "")  and  tok has no quote char
Stack invariant S: every stacked token has type in {FUNC, ARRAY, PAREN} and subtype OPEN.
"""
import os

import z3

from pyvc.ctx import VerifCtx, Contract, LoopSpec
from pyvc.plan import Plan, Lemma, BoundedStandIn
from pyvc.sym import (Custom, Int, Str, PObj, SInt, SStr, SBool, Unsupported, PyRaise, VExc, PathEnd, fresh_name, lift, wrap,
                      as_int_term, is_intlike)
from pyvc import regex as RX

SV = z3.StringVal
OPEN_TYPES = ("FUNC", "ARRAY", "PAREN")


def T(v):
    return as_int_term(v) if is_intlike(v) else lift(v)


class JoinList(Custom):
    """self.token: a list of strings seen through its join and its element count."""

    def __init__(self, tok, n):
        self.tok, self.n = tok, n

    def truth(self, ex):
        return self.n > 0

    def length(self, ex):
        return self.n

    def join(self, ex, sep, line):
        if sep != "":
            raise Unsupported("join with a separator")
        return wrap(self.tok)

    def method(self, ex, name, args, kwargs, line):
        if name == "append":
            self.tok = z3.simplify(z3.Concat(self.tok, lift(args[0])))
            self.n = z3.simplify(self.n + 1)
            return None
        raise Unsupported(f"token.{name}")

    def delslice(self, ex, lo, hi, line):
        if lo is not None or hi is not None:
            raise Unsupported("partial del of token")
        self.tok, self.n = SV(""), z3.IntVal(0)


class ItemsView(Custom):
    """self.items: list of Tokens seen through the concatenation of their values, its length and its last item."""

    def __init__(self, itxt, n, last_type, last_subtype, quoted_ok):
        self.itxt, self.n, self.last_type, self.last_subtype, self.quoted_ok = itxt, n, last_type, last_subtype, quoted_ok

    def truth(self, ex):
        return self.n > 0

    def length(self, ex):
        return self.n

    def method(self, ex, name, args, kwargs, line):
        if name == "append":
            t = args[0]
            if not isinstance(t, PObj) or t.cls != "Token":
                raise Unsupported("items.append of a non-Token")
            v = lift(t.fields["value"])
            self.itxt = z3.simplify(z3.Concat(self.itxt, v))
            self.n = z3.simplify(self.n + 1)
            self.last_type, self.last_subtype = lift(t.fields["type"]), lift(t.fields["subtype"])
            # "never split": an item that contains a quote character is one whole quoted match
            has_q = z3.Or(z3.Contains(v, SV('"')), z3.Contains(v, SV("'")))
            whole = z3.Or(z3.InRe(v, DQ_RE()), z3.InRe(v, SQ_RE()))
            self.quoted_ok = z3.And(self.quoted_ok, z3.Implies(has_q, whole))
            return None
        raise Unsupported(f"items.{name}")

    def getitem(self, ex, idx, line):
        if idx != -1:
            raise Unsupported("items[k] other than items[-1]")
        ex.safety(self.n > 0, "IndexError", "items-nonempty", line)
        return PObj("Token", {"value": ex.fresh("str", "lastval"), "type": wrap(self.last_type),
                              "subtype": wrap(self.last_subtype), "num_args": 0})


class StackView(Custom):
    """self.token_stack: depth only; every element satisfies S (checked at push, assumed at pop/peek)."""

    def __init__(self, depth):
        self.depth = depth

    def truth(self, ex):
        return self.depth > 0

    def length(self, ex):
        return self.depth

    def _elem(self, ex):
        ty = ex.fresh("str", "stk_type")
        ex.assume(z3.Or(*[ty.t == SV(x) for x in OPEN_TYPES]))
        return PObj("Token", {"value": ex.fresh("str", "stk_val"), "type": ty, "subtype": "OPEN", "num_args": 0})

    def method(self, ex, name, args, kwargs, line):
        if name == "append":
            t = args[0]
            ty, st = lift(t.fields["type"]), lift(t.fields["subtype"])
            ex.oblige(f"stack-invariant@L{line}", z3.And(z3.Or(*[ty == SV(x) for x in OPEN_TYPES]), st == SV("OPEN")),
                      "invariant", line)
            self.depth = z3.simplify(self.depth + 1)
            return None
        if name == "pop" and not args:
            ex.safety(self.depth > 0, "IndexError", "pop-nonempty", line)
            self.depth = z3.simplify(self.depth - 1)
            return self._elem(ex)
        raise Unsupported(f"token_stack.{name}")

    def getitem(self, ex, idx, line):
        if idx != -1:
            raise Unsupported("token_stack[k] other than [-1]")
        ex.safety(self.depth > 0, "IndexError", "stack-nonempty", line)
        return self._elem(ex)


_res = {}


def DQ_RE():
    if "dq" not in _res:
        _res["dq"] = RX.compiled('"(?:[^"]*"")*[^"]*"').whole
    return _res["dq"]


def SQ_RE():
    if "sq" not in _res:
        _res["sq"] = RX.compiled(r"(?:'[^']*(?:''[^']*)*')(?:\s*:\s*'[^']*(?:''[^']*)*')*").whole
    return _res["sq"]


def build():
    ctx = VerifCtx()
    plan = Plan("C18", ctx)
    plan.native_module = os.path.join(os.path.dirname(__file__), "C18_native.py")

    def mk_tok(ex, initial=False):
        F = ex.fresh("str", "formula")
        if initial:
            o, tok, n, itxt, ni, lt, ls, dep, q = 0, SV(""), z3.IntVal(0), SV(""), z3.IntVal(0), SV(""), SV(""), z3.IntVal(0), z3.BoolVal(True)
        else:
            o = ex.fresh("int", "offset")
            tok, itxt = z3.String(fresh_name("tok")), z3.String(fresh_name("itxt"))
            n, ni, dep = z3.Int(fresh_name("ntok")), z3.Int(fresh_name("nitems")), z3.Int(fresh_name("depth"))
            lt, ls = z3.String(fresh_name("last_type")), z3.String(fresh_name("last_subtype"))
            q = z3.Bool(fresh_name("quoted_ok"))
            ex.assume(z3.And(n >= 0, ni >= 0, dep >= 0, (n == 0) == (tok == SV("")), n <= z3.Length(tok)))
        t = PObj("Tokenizer", {"formula": F, "offset": o, "token": JoinList(tok, n),
                               "items": ItemsView(itxt, ni, lt, ls, q), "token_stack": StackView(dep)})
        return t

    def snap(t):
        f = t.fields
        return {"F": lift(f["formula"]), "o": T(f["offset"]), "tok": f["token"].tok, "n": f["token"].n,
                "itxt": f["items"].itxt, "ni": f["items"].n, "depth": f["token_stack"].depth, "q": f["items"].quoted_ok}

    def entry(ex):
        t = mk_tok(ex)
        env = {"self": t, "old": snap(t), "g_formula": t.fields["formula"], "g_offset": t.fields["offset"]}
        o, F = env["old"]["o"], env["old"]["F"]
        ex.assume(z3.And(o >= 0, o < z3.Length(F)))  # consumers are called with the offset inside the formula
        ex.assume(no_quote(env["old"]["tok"]))
        return env

    def no_quote(s):
        return z3.And(z3.Not(z3.Contains(s, SV('"'))), z3.Not(z3.Contains(s, SV("'"))))

    def havoc_self(ex, cenv):
        t = cenv["self"]
        cenv["old"] = snap(t)
        f = t.fields
        f["token"] = JoinList(z3.String(fresh_name("tok")), z3.Int(fresh_name("ntok")))
        it = f["items"]
        f["items"] = ItemsView(z3.String(fresh_name("itxt")), z3.Int(fresh_name("nitems")), z3.String(fresh_name("lt")),
                               z3.String(fresh_name("ls")), z3.Bool(fresh_name("q")))
        f["token_stack"] = StackView(z3.Int(fresh_name("depth")))
        ex.assume(z3.And(f["token"].n >= 0, f["items"].n >= 0, f["token_stack"].depth >= 0,
                         (f["token"].n == 0) == (f["token"].tok == SV(""))))

    # ---- the uniform consumer postcondition:  itxt' + tok' == itxt + tok + F[o : o+n],  n >= 1, quotes stay out of tok
    def consumed(ex, env, n):
        old, new = env["old"], snap(env["self"])
        F, o = old["F"], old["o"]
        return z3.And(n >= 1,
                      z3.Concat(new["itxt"], new["tok"]) == z3.Concat(old["itxt"], old["tok"], z3.SubString(F, o, n)),
                      new["tok"] == SV(""), z3.Implies(old["q"], new["q"]), new["o"] == old["o"], new["F"] == F)

    def consumer_post(ex, env):
        return consumed(ex, env, T(env["result"]))
    consumer_post.__name__ = "returns n >= 1; itxt' == itxt+tok+formula[offset:offset+n]; tok' == ''; quoted items whole"

    def frame_items_only(ex, env):
        return snap(env["self"])["depth"] == env["old"]["depth"]

    rep = lambda plan_, c, inputs, ob: {"custom": "replay_tokenizer", "native_module": plan_.native_module, "inputs": inputs}
    srch = lambda plan_, c: {"custom": "search_tokenizer", "native_module": plan_.native_module}
    cons = dict(replay=rep, search=srch, entry=entry, ensures=[consumer_post], may_raise=["TokenizerError"], safety="fork", result="int",
                effects=havoc_self,
                inline={"tokenizer:Tokenizer.assert_empty_token", "tokenizer:Token.make_operand", "tokenizer:Token.__init__",
                        "tokenizer:Token.make_subexp", "tokenizer:Token.get_closer", "tokenizer:Token.make_separator"})
    # each consumer is only ever called by the dispatcher for its own characters (proved at the call site in parse)
    DISPATCH = {"parse_string": "\"'", "parse_error": "#", "parse_operator": "+-*/^&=><%×÷≥≤≠", "parse_opener": "{(",
                "parse_closer": ")}", "parse_separator": ";,"}

    def dispatched(chars):
        def pre(ex, env):
            f = env["self"].fields
            ch = z3.SubString(lift(f["formula"]), T(f["offset"]), 1)
            return z3.Or(*[ch == SV(c) for c in chars])
        pre.__name__ = f"formula[offset] in {chars!r}"
        return pre
    def tok_empty(ex, env):
        return env["self"].fields["token"].tok == SV("")
    tok_empty.__name__ = "the pending token was saved first (the character is a TOKEN_ENDER)"
    for m in ("parse_string", "parse_error", "parse_operator", "parse_opener", "parse_closer", "parse_separator"):
        pre = [dispatched(DISPATCH[m])] + ([tok_empty] if m in ("parse_operator", "parse_closer", "parse_separator") else [])
        plan.target(Contract(f"tokenizer:Tokenizer.{m}", requires=pre, **cons))

    # ---- check_scientific_notation / save_token
    def sci_post(ex, env):
        old, new = env["old"], snap(env["self"])
        r = env["result"]
        rt = r.t if isinstance(r, SBool) else z3.BoolVal(bool(r))
        ch = z3.SubString(old["F"], old["o"], 1)
        return z3.And(new["itxt"] == old["itxt"], new["F"] == old["F"], new["depth"] == old["depth"], new["q"] == old["q"],
                      z3.If(rt, z3.And(new["tok"] == z3.Concat(old["tok"], ch), new["o"] == old["o"] + 1, no_quote(new["tok"])),
                            z3.And(new["tok"] == old["tok"], new["o"] == old["o"])))
    sci_post.__name__ = "True: tok' == tok + formula[offset], offset+1; False: nothing changes"
    plan.target(Contract("tokenizer:Tokenizer.check_scientific_notation", entry=entry, ensures=[sci_post], safety="fork",
                         result="bool", effects=havoc_self, replay=rep, search=srch))

    def save_entry(ex):
        t = mk_tok(ex)
        env = {"self": t, "old": snap(t), "g_formula": t.fields["formula"]}
        ex.assume(env["old"]["o"] >= 0)
        ex.assume(no_quote(env["old"]["tok"]))
        return env

    def save_post(ex, env):
        old, new = env["old"], snap(env["self"])
        return z3.And(z3.Concat(new["itxt"], new["tok"]) == z3.Concat(old["itxt"], old["tok"]), new["tok"] == SV(""),
                      new["o"] == old["o"], new["F"] == old["F"], new["depth"] == old["depth"], z3.Implies(old["q"], new["q"]))
    save_post.__name__ = "itxt' == itxt + tok, tok' == ''"
    plan.target(Contract("tokenizer:Tokenizer.save_token", entry=save_entry, ensures=[save_post], safety="fork", replay=rep, search=srch,
                         effects=havoc_self, inline={"tokenizer:Token.make_operand", "tokenizer:Token.__init__"}))

    # ---- parse: the main loop
    def parse_entry(ex):
        t = mk_tok(ex, initial=True)
        return {"self": t, "old": snap(t), "g_formula": t.fields["formula"]}

    def J(ex, env):
        s = snap(env["self"])
        F, o = s["F"], s["o"]
        L = z3.Length(F)
        upto = z3.If(o < L, o, L)
        return z3.And(o >= 0, z3.Concat(s["itxt"], s["tok"]) == z3.SubString(F, 0, upto), z3.Implies(o > L, s["tok"] == SV("")),
                      no_quote(s["tok"]), s["q"], F == env["old"]["F"])

    def parse_havoc(ex, env):
        t = env["self"]
        F = t.fields["formula"]
        fresh = mk_tok(ex)
        for k in ("offset", "token", "items", "token_stack"):
            t.fields[k] = fresh.fields[k]

    def parse_post(ex, env):
        s = snap(env["self"])
        return z3.And(s["itxt"] == env["old"]["F"], s["tok"] == SV(""), s["q"])
    parse_post.__name__ = '"".join(t.value for t in items) == formula; every item containing a quote is one whole quoted match'

    def parse_dec(ex, env):
        s = snap(env["self"])
        return wrap(z3.Length(s["F"]) + 1 - s["o"])

    plan.target(Contract(
        "tokenizer:Tokenizer.parse", entry=parse_entry, ensures=[parse_post], raises={"TokenizerError": None},
        safety="fork", loops={2: LoopSpec([J], decreases=parse_dec, havoc=[parse_havoc])}, replay=rep, search=srch,
        canaries=[lambda ex, env: snap(env["self"])["itxt"] == z3.Concat(env["old"]["F"], SV("x"))]))

    # ---- the string regexes of the source are language-equivalent to the documented quoting grammar
    def regex_obligations(plan_):
        from pyvc import extract
        from pyvc.sym import Obligation
        import ast as _ast
        node = extract.class_assign("tokenizer", "Tokenizer", "STRING_REGEXES")
        out = []
        spec = {'"': '"(?:[^"]*"")*[^"]*"(?!")', "'": r"(?:'[^']*(?:''[^']*)*')(?:\s*:\s*'[^']*(?:''[^']*)*')*"}
        pc = Contract("tokenizer:Tokenizer.STRING_REGEXES", replay=rep, search=srch)
        pc.finfo = None
        ctx.contracts[pc.key] = pc
        for k, v in zip(node.keys, node.values):
            delim = _ast.literal_eval(k)
            if not (isinstance(v, _ast.Call) and _ast.unparse(v.func) == "re.compile" and len(v.args) == 1 and not v.keywords):
                raise Unsupported("STRING_REGEXES entry is not re.compile(<pattern>)")
            code = RX.Compiled(_ast.literal_eval(v.args[0]))
            sp = RX.Compiled(spec[delim])
            x = z3.String(fresh_name("w"))
            goal = z3.InRe(x, code.whole) == z3.InRe(x, sp.whole)
            if (code.neg_lookahead is None) != (sp.neg_lookahead is None):
                goal = z3.BoolVal(False)
            elif code.neg_lookahead is not None:
                goal = z3.And(goal, z3.InRe(x, code.neg_lookahead) == z3.InRe(x, sp.neg_lookahead))
            ob = Obligation(f"quoting-grammar/{'double' if delim == chr(34) else 'single'}-quote-regex-equivalent", [], goal, "spec-equivalence",
                            v.lineno, {"inputs": {"g_formula": SStr(x)}})
            ob.fn = pc.key
            ob.contract = pc
            out.append(ob)
        return out
    plan.extra_obligations.append(regex_obligations)

    plan.bounded.append(BoundedStandIn(
        "tokenizer-strings", "c18_tokenizer.py", ["--max-len", "3"], thorough_args=["--max-len", "4", "--random", "200000", "--fixtures", "0"],
        bound="all strings of length <= 3 (thorough <= 4) over a 32-glyph alphabet (letters, digits, space, operators incl. "
              "typographic variants, separators, both quotes, '#', '$', '!', 'E') + 20000 (200000) seeded random strings to length 24; and every "
              "formula text the library reports for the 16 largest (thorough: all) fixture documents (clause 3)",
        functions=["Tokenizer.parse", "Document(path) formula rendering -> Tokenizer"]))
    plan.assumptions += [
        "ghost views: token = (join, count), items = (concatenated values, count, last type/subtype, quoted-items-whole flag), "
        "token_stack = depth with element invariant S checked at push and assumed at pop/peek; any other list operation is UNSUPPORTED",
        "float(str) either raises ValueError or returns a float (which spellings are accepted is not modelled)",
        "regex match = any decomposition + tail maximality + trailing look-ahead (CPython's choice is one of them); None iff no prefix is in the language",
        "strings: z3/cvc5 string theory, code points <= U+2FFFF",
        "clause 3 (every formula the reader emits is accepted) is decided only by the bounded stand-in",
    ]
    plan.trusted += ["pyvc AST->SMT translation (cross-checked against CPython)", "z3 5.1.0", "cvc5 1.0.3 (string VCs)"]
    return plan

"""C03 - Any edit history leaves each table equal to a plain grid, before and after save.

Per-operation contracts against the abstract grid (nr, rl, at) + class invariant T-INV+:
  len(grid) == num_rows, every row has num_cols cells, sizes >= 1, grid cells pairwise distinct objects, and every
  cell carries its own coordinates:  cell(r,c).row == r and cell(r,c).col == c.
Every operation is proved to implement its plain-grid transformer and to re-establish T-INV+, so every finite
history does (induction over the history is exactly requires-inv / ensures-inv).
"""
import os

import z3

from pyvc.ctx import VerifCtx, Contract, LoopSpec
from pyvc.plan import Plan, Lemma, BoundedStandIn
from pyvc.sym import Int, PObj, SInt, SOpt, SRef, fresh_name, lift, as_int_term, is_intlike, Unsupported
from pyvc.grid import SGrid, SRowVal, RowArr


def T(v):
    return as_int_term(v) if is_intlike(v) else lift(v)


def build():
    ctx = VerifCtx()
    plan = Plan("C03", ctx)
    plan.native_module = os.path.join(os.path.dirname(__file__), "C03_native.py")
    ctx.class_fields["Cell"] = {"row": "int", "col": "int"}

    def Hrow(ex):
        return ex.heap_array("Cell", "row")

    def Hcol(ex):
        return ex.heap_array("Cell", "col")

    def rect(g, nr, nc):
        r = z3.Int(fresh_name("tr"))
        return z3.And(g.nr == nr, nr >= 1, nc >= 1, z3.ForAll([r], z3.Implies(z3.And(0 <= r, r < g.nr), z3.Select(g.rl, r) == nc)))

    def inj(g, nr, nc):
        r1, c1, r2, c2 = (z3.Int(fresh_name(n)) for n in ("r1", "c1", "r2", "c2"))
        return z3.ForAll([r1, c1, r2, c2], z3.Implies(
            z3.And(0 <= r1, r1 < nr, 0 <= c1, c1 < nc, 0 <= r2, r2 < nr, 0 <= c2, c2 < nc, g.cell(r1, c1) == g.cell(r2, c2)),
            z3.And(r1 == r2, c1 == c2)))

    def coords(ex, g, lo, hi, nc):
        """cells of rows [lo, hi) carry their own coordinates"""
        r, c = z3.Int(fresh_name("pr")), z3.Int(fresh_name("pc"))
        return z3.ForAll([r, c], z3.Implies(z3.And(lo <= r, r < hi, 0 <= c, c < nc),
                                            z3.And(z3.Select(Hrow(ex), g.cell(r, c)) == r, z3.Select(Hcol(ex), g.cell(r, c)) == c)))

    def tinv(ex, g, nr, nc):
        return z3.And(rect(g, nr, nc), inj(g, nr, nc), coords(ex, g, 0, nr, nc))

    def mk_table(ex):
        g = SGrid.fresh(ex, "data")
        nr, nc = ex.fresh("int", "num_rows"), ex.fresh("int", "num_cols")
        ex.assume(tinv(ex, g, nr.t, nc.t))
        t = PObj("Table", {"_data": g, "num_rows": nr, "num_cols": nc, "_model": PObj("_NumbersModel", {}),
                           "_table_id": ex.fresh("int", "tid")})
        return t, g, nr, nc

    plan.callee(Contract("model:_NumbersModel.number_of_rows", model=lambda ex, a, k, l: None, assumed=True,
                         note="records the row count in the model (no effect on the grid view)"))
    plan.callee(Contract("model:_NumbersModel.number_of_columns", model=lambda ex, a, k, l: None, assumed=True,
                         note="records the column count in the model (no effect on the grid view)"))

    # ------------------------------------------------------------------ delete_row
    def del_entry(axis):
        def entry(ex):
            t, g, nr, nc = mk_table(ex)
            env = {"self": t, "g0": g.copy(), "nr0": nr, "nc0": nc}
            env["num_rows" if axis == "row" else "num_cols"] = env["g_count"] = ex.fresh("int", "count")
            env["start_row" if axis == "row" else "start_col"] = env["g_start"] = ex.fresh("optint", "start")
            return env
        return entry

    def del_args(env, axis):
        n = T(env["g_count"])
        st = env["g_start"]
        size = env["nr0"].t if axis == "row" else env["nc0"].t
        start = z3.If(st.isnone, size - n, st.val.t)
        return n, st, size, start

    def del_bad(axis):
        def bad(ex, env):
            n, st, size, start = del_args(env, axis)
            return z3.Or(z3.And(z3.Not(st.isnone), z3.Or(st.val.t < 0, st.val.t >= size)), n < 0, start < 0, start + n > size)
        return bad

    def del_post(axis):
        def post(ex, env):
            t = env["self"]
            g, g0 = t.fields["_data"], env["g0"]
            n, st, size, start = del_args(env, axis)
            nr1, nc1 = T(t.fields["num_rows"]), T(t.fields["num_cols"])
            r, c = z3.Int(fresh_name("qr")), z3.Int(fresh_name("qc"))
            if axis == "row":
                dims = z3.And(nr1 == env["nr0"].t - n, nc1 == env["nc0"].t)
                cells = z3.ForAll([r, c], z3.Implies(z3.And(0 <= r, r < nr1, 0 <= c, c < nc1),
                                                     g.cell(r, c) == g0.cell(z3.If(r < start, r, r + n), c)))
            else:
                dims = z3.And(nr1 == env["nr0"].t, nc1 == env["nc0"].t - n)
                cells = z3.ForAll([r, c], z3.Implies(z3.And(0 <= r, r < nr1, 0 <= c, c < nc1),
                                                     g.cell(r, c) == g0.cell(r, z3.If(c < start, c, c + n))))
            keep_nonempty = z3.Implies(n < size, z3.And(nr1 >= 1, nc1 >= 1))
            return z3.And(dims, cells, keep_nonempty, g.nr == nr1,
                          z3.ForAll([r], z3.Implies(z3.And(0 <= r, r < nr1), z3.Select(g.rl, r) == nc1)),
                          coords(ex, g, 0, nr1, nc1))
        post.__name__ = (f"grid' == grid with the addressed {axis}s removed (exactly the slice), sizes adjusted by the count, every "
                         "remaining cell reports its new position")
        return post

    def unchanged(ex, env):
        t = env["self"]
        g, g0 = t.fields["_data"], env["g0"]
        same = z3.And(g.nr == g0.nr, T(t.fields["num_rows"]) == env["nr0"].t, T(t.fields["num_cols"]) == env["nc0"].t)
        for a, b in ((g.at, g0.at), (g.rl, g0.rl)):
            if not a.eq(b):
                same = z3.And(same, a == b)
        return same
    unchanged.__name__ = "a refused edit changes nothing"

    def renum_outer(ex, env):
        t = env["self"]
        g = t.fields["_data"]
        nr1, nc1 = T(t.fields["num_rows"]), T(t.fields["num_cols"])
        start = T(env["start_row"])
        i = T(env["_i"])
        return z3.And(coords(ex, g, 0, start + i, nc1), g.nr == nr1,
                      same_grid(g, env["g_mid"]))

    def same_grid(g, g1):
        same = g.nr == g1.nr
        for a, b in ((g.at, g1.at), (g.rl, g1.rl)):
            if not a.eq(b):
                same = z3.And(same, a == b)
        return same

    def renum_inner(ex, env):
        t = env["self"]
        g = t.fields["_data"]
        nc1 = T(t.fields["num_cols"])
        row = T(env["row"])
        j = T(env["_j"])
        c = z3.Int(fresh_name("ic"))
        return z3.And(coords(ex, g, 0, row, nc1), same_grid(g, env["g_mid"]),
                      z3.ForAll([c], z3.Implies(z3.And(0 <= c, c < j), z3.And(z3.Select(Hrow(ex), g.cell(row, c)) == row,
                                                                             z3.Select(Hcol(ex), g.cell(row, c)) == c))))

    def havoc_heap(ex, env):
        h = ex.extra_roots["heap"]
        h[("Cell", "row")] = z3.Const(fresh_name("Hrow"), z3.ArraySort(Int, Int))
        h[("Cell", "col")] = z3.Const(fresh_name("Hcol"), z3.ArraySort(Int, Int))

    def snapshot_mid(ex, env):
        # ghost: the grid after the structural change, before renumbering (loops do not change the grid itself)
        env["g_mid"] = env["self"].fields["_data"].copy()

    plan.target(Contract(
        "document:Table.delete_row", entry=del_entry("row"), raises={"IndexError": del_bad("row")}, ensures=[del_post("row")],
        exc_ensures=[unchanged], safety="fork",
        loops={1: LoopSpec([renum_outer], index="_i", havoc=[havoc_heap], pre=[snapshot_mid]),
               2: LoopSpec([renum_inner], index="_j", havoc=[havoc_heap])},
        replay=lambda plan_, c, inputs, ob: {"custom": "replay_edit", "native_module": plan_.native_module, "op": "delete_row", "inputs": inputs},
        search=lambda plan_, c: {"custom": "search_edit", "native_module": plan_.native_module, "op": "delete_row"}))

    # ------------------------------------------------------------------ delete_column
    def dc_start(env):
        n, st, size, start = del_args(env, "col")
        return n, start

    def dc_row_done(ex, env, g, r_lo, r_hi):
        """rows [r_lo, r_hi) have had the slice removed and their cells renumbered"""
        g0 = env["g0"]
        n, start = dc_start(env)
        w = env["nc0"].t - n
        r, c = z3.Int(fresh_name("dr")), z3.Int(fresh_name("dc"))
        return z3.And(
            z3.ForAll([r], z3.Implies(z3.And(r_lo <= r, r < r_hi), z3.Select(g.rl, r) == w)),
            z3.ForAll([r, c], z3.Implies(z3.And(r_lo <= r, r < r_hi, 0 <= c, c < w), z3.And(
                g.cell(r, c) == g0.cell(r, z3.If(c < start, c, c + n)), z3.Select(Hcol(ex), g.cell(r, c)) == c,
                z3.Select(Hrow(ex), g.cell(r, c)) == r))))

    def dc_row_todo(ex, env, g, r_lo, r_hi):
        g0 = env["g0"]
        r, c = z3.Int(fresh_name("tr")), z3.Int(fresh_name("tc"))
        return z3.And(
            z3.ForAll([r], z3.Implies(z3.And(r_lo <= r, r < r_hi), z3.And(z3.Select(g.rl, r) == env["nc0"].t,
                                                                        z3.Select(g.at, r) == z3.Select(g0.at, r)))),
            z3.ForAll([r, c], z3.Implies(z3.And(r_lo <= r, r < r_hi, 0 <= c, c < env["nc0"].t), z3.And(
                z3.Select(Hcol(ex), g0.cell(r, c)) == c, z3.Select(Hrow(ex), g0.cell(r, c)) == r))))

    def dc_outer(ex, env):
        t = env["self"]
        g = t.fields["_data"]
        i = T(env["_i"])
        return z3.And(g.nr == env["nr0"].t, T(t.fields["num_rows"]) == env["nr0"].t, T(t.fields["num_cols"]) == env["nc0"].t,
                      dc_row_done(ex, env, g, 0, i), dc_row_todo(ex, env, g, i, env["nr0"].t))

    def dc_inner(ex, env):
        t = env["self"]
        g = t.fields["_data"]
        row = T(env["row"])
        j = T(env["_j"])
        n, start = dc_start(env)
        w = env["nc0"].t - n
        c = z3.Int(fresh_name("jc"))
        g0 = env["g0"]
        return z3.And(g.nr == env["nr0"].t, dc_row_done(ex, env, g, 0, row), dc_row_todo(ex, env, g, row + 1, env["nr0"].t),
                      z3.Select(g.rl, row) == w,
                      z3.ForAll([c], z3.Implies(z3.And(0 <= c, c < w), g.cell(row, c) == g0.cell(row, z3.If(c < start, c, c + n)))),
                      z3.ForAll([c], z3.Implies(z3.And(0 <= c, c < j), z3.Select(Hcol(ex), g.cell(row, c)) == c)),
                      z3.ForAll([c], z3.Implies(z3.And(0 <= c, c < w), z3.Select(Hrow(ex), g.cell(row, c)) == row)))

    def havoc_grid_heap(ex, env):
        env["self"].fields["_data"] = SGrid.fresh(ex, "data_h")
        havoc_heap(ex, env)

    plan.target(Contract(
        "document:Table.delete_column", entry=del_entry("col"), raises={"IndexError": del_bad("col")}, ensures=[del_post("col")],
        exc_ensures=[unchanged], safety="fork",
        requires=[lambda ex, env: inj(env["g0"], env["nr0"].t, env["nc0"].t)],
        loops={1: LoopSpec([dc_outer], index="_i", havoc=[havoc_grid_heap]),
               2: LoopSpec([dc_inner], index="_j", havoc=[havoc_heap])},
        replay=lambda plan_, c, inputs, ob: {"custom": "replay_edit", "native_module": plan_.native_module, "op": "delete_column", "inputs": inputs},
        search=lambda plan_, c: {"custom": "search_edit", "native_module": plan_.native_module, "op": "delete_column"}))

    # ------------------------------------------------------------------ add_row (default None)
    def Alloc(ex):
        h = ex.extra_roots["heap"]
        if ("Cell", "__alloc__") not in h:
            h[("Cell", "__alloc__")] = z3.Const("H_Cell_alloc", z3.ArraySort(Int, z3.BoolSort()))
        return h[("Cell", "__alloc__")]

    def all_alloc(ex, g, nr, nc):
        r, c = z3.Int(fresh_name("ar")), z3.Int(fresh_name("ac"))
        return z3.ForAll([r, c], z3.Implies(z3.And(0 <= r, r < nr, 0 <= c, c < nc), z3.Select(Alloc(ex), g.cell(r, c))))

    def add_entry(axis):
        def entry(ex):
            t, g, nr, nc = mk_table(ex)
            ex.assume(all_alloc(ex, g, nr.t, nc.t))
            env = {"self": t, "g0": g.copy(), "nr0": nr, "nc0": nc, "default": None,
                   "g_Hrow0": Hrow(ex), "g_Hcol0": Hcol(ex), "g_alloc0": Alloc(ex)}
            env["num_rows" if axis == "row" else "num_cols"] = env["g_count"] = ex.fresh("int", "count")
            env["start_row" if axis == "row" else "start_col"] = env["g_start"] = ex.fresh("optint", "start")
            return env
        return entry

    def add_bad(axis):
        def bad(ex, env):
            n, st = T(env["g_count"]), env["g_start"]
            size = env["nr0"].t if axis == "row" else env["nc0"].t
            return z3.Or(z3.And(z3.Not(st.isnone), z3.Or(st.val.t < 0, st.val.t >= size)), n < 0)
        return bad

    def new_cells_row(ex, env):
        """[Cell._empty_cell(table_id, row, col, model) for col in range(num_cols)]: num_cols freshly allocated cells
        carrying (row, col) - assumed contract of Cell._empty_cell plus object allocation"""
        t = env["self"]
        nc = T(t.fields["num_cols"])
        row = T(env["row"])
        new = z3.Const(fresh_name("newrow"), RowArr)
        c, c2, ref = z3.Int(fresh_name("nc")), z3.Int(fresh_name("nc2")), z3.Int(fresh_name("ref"))
        alloc, hr, hc = Alloc(ex), Hrow(ex), Hcol(ex)
        ex.assume(z3.ForAll([c], z3.Implies(z3.And(0 <= c, c < nc), z3.Not(z3.Select(alloc, z3.Select(new, c))))))
        ex.assume(z3.ForAll([c, c2], z3.Implies(z3.And(0 <= c, c < c2, c2 < nc), z3.Select(new, c) != z3.Select(new, c2))))
        h = ex.extra_roots["heap"]
        hr2, hc2 = z3.Const(fresh_name("Hrow"), hr.sort()), z3.Const(fresh_name("Hcol"), hc.sort())
        al2 = z3.Const(fresh_name("alloc"), alloc.sort())
        ex.assume(z3.ForAll([ref], z3.Implies(z3.Select(alloc, ref), z3.And(z3.Select(al2, ref), z3.Select(hr2, ref) == z3.Select(hr, ref),
                                                                            z3.Select(hc2, ref) == z3.Select(hc, ref)))))
        ex.assume(z3.ForAll([c], z3.Implies(z3.And(0 <= c, c < nc), z3.And(z3.Select(al2, z3.Select(new, c)),
                                                                          z3.Select(hr2, z3.Select(new, c)) == row,
                                                                          z3.Select(hc2, z3.Select(new, c)) == c))))
        h[("Cell", "row")], h[("Cell", "col")], h[("Cell", "__alloc__")] = hr2, hc2, al2
        return SRowVal(nc, new, "Cell")

    def old_untouched(ex, env):
        """every cell allocated at entry keeps its row/col fields and stays allocated"""
        ref = z3.Int(fresh_name("oref"))
        return z3.ForAll([ref], z3.Implies(z3.Select(env["g_alloc0"], ref), z3.And(
            z3.Select(Alloc(ex), ref), z3.Select(Hrow(ex), ref) == z3.Select(env["g_Hrow0"], ref),
            z3.Select(Hcol(ex), ref) == z3.Select(env["g_Hcol0"], ref))))

    def rows_built(ex, env, rows, upto, start):
        nc = env["nc0"].t
        k, c, k2, c2 = (z3.Int(fresh_name(x)) for x in ("bk", "bc", "bk2", "bc2"))
        return z3.And(
            z3.ForAll([k], z3.Implies(z3.And(0 <= k, k < upto), z3.Select(rows.rl, k) == nc)),
            z3.ForAll([k, c], z3.Implies(z3.And(0 <= k, k < upto, 0 <= c, c < nc), z3.And(
                z3.Not(z3.Select(env["g_alloc0"], rows.cell(k, c))), z3.Select(Alloc(ex), rows.cell(k, c)),
                z3.Select(Hrow(ex), rows.cell(k, c)) == start + k, z3.Select(Hcol(ex), rows.cell(k, c)) == c))),
            z3.ForAll([k, c, k2, c2], z3.Implies(z3.And(0 <= k, k < upto, 0 <= c, c < nc, 0 <= k2, k2 < upto, 0 <= c2, c2 < nc,
                                                        rows.cell(k, c) == rows.cell(k2, c2)), z3.And(k == k2, c == c2))))

    def ar_build_inv(ex, env):
        rows = env["rows"]
        i = T(env["_i"])
        t = env["self"]
        return z3.And(rows.nr == i, rows_built(ex, env, rows, i, T(env["start_row"])), old_untouched(ex, env),
                      same_grid(t.fields["_data"], env["g0"]), T(t.fields["num_rows"]) == env["nr0"].t + T(env["g_count"]),
                      T(t.fields["num_cols"]) == env["nc0"].t)

    def havoc_rows(ex, env):
        env["rows"] = SGrid.fresh(ex, "rows_h")
        h = ex.extra_roots["heap"]
        h[("Cell", "row")] = z3.Const(fresh_name("Hrow"), z3.ArraySort(Int, Int))
        h[("Cell", "col")] = z3.Const(fresh_name("Hcol"), z3.ArraySort(Int, Int))
        h[("Cell", "__alloc__")] = z3.Const(fresh_name("alloc"), z3.ArraySort(Int, z3.BoolSort()))

    def ar_grid_after(ex, env, g):
        """the spliced grid: old rows, then the new block, then the shifted old rows"""
        g0 = env["g0"]
        n, start = T(env["g_count"]), T(env["start_row"]) if not isinstance(env["start_row"], SOpt) else None
        return n, start

    def ar_post(ex, env):
        t = env["self"]
        g, g0 = t.fields["_data"], env["g0"]
        n = T(env["g_count"])
        st = env["g_start"]
        start = z3.If(st.isnone, env["nr0"].t, st.val.t)
        nr1, nc1 = T(t.fields["num_rows"]), T(t.fields["num_cols"])
        r, c = z3.Int(fresh_name("qr")), z3.Int(fresh_name("qc"))
        return z3.And(
            nr1 == env["nr0"].t + n, nc1 == env["nc0"].t, rect(g, nr1, nc1),
            z3.ForAll([r, c], z3.Implies(z3.And(0 <= r, r < start, 0 <= c, c < nc1), g.cell(r, c) == g0.cell(r, c))),
            z3.ForAll([r, c], z3.Implies(z3.And(start + n <= r, r < nr1, 0 <= c, c < nc1), g.cell(r, c) == g0.cell(r - n, c))),
            z3.ForAll([r, c], z3.Implies(z3.And(start <= r, r < start + n, 0 <= c, c < nc1),
                                         z3.Not(z3.Select(env["g_alloc0"], g.cell(r, c))))),
            coords(ex, g, 0, nr1, nc1))
    ar_post.__name__ = ("grid' == grid[:at] + count rows of new (blank) cells + grid[at:]; num_rows + count; rectangular; every cell "
                        "(old and new) reports its own position")

    def ar_renum_outer(ex, env):
        t = env["self"]
        g = t.fields["_data"]
        nr1, nc1 = T(t.fields["num_rows"]), T(t.fields["num_cols"])
        start = T(env["start_row"])
        i = T(env["_i"])
        return z3.And(coords(ex, g, 0, start + i, nc1), same_grid(g, env["g_mid"]))

    def ar_renum_inner(ex, env):
        t = env["self"]
        g = t.fields["_data"]
        nc1 = T(t.fields["num_cols"])
        row, j = T(env["row"]), T(env["_j"])
        c = z3.Int(fresh_name("ic"))
        return z3.And(coords(ex, g, 0, row, nc1), same_grid(g, env["g_mid"]),
                      z3.ForAll([c], z3.Implies(z3.And(0 <= c, c < j), z3.And(z3.Select(Hrow(ex), g.cell(row, c)) == row,
                                                                             z3.Select(Hcol(ex), g.cell(row, c)) == c))))

    def mid_facts(ex, env):
        # ghost: remember the spliced grid and that it is injective (old cells distinct, new cells distinct and fresh)
        snapshot_mid(ex, env)

    def ar_mid_inj(ex, env):
        t = env["self"]
        return inj(t.fields["_data"], T(t.fields["num_rows"]), T(t.fields["num_cols"]))

    plan.target(Contract(
        "document:Table.add_row", entry=add_entry("row"), raises={"IndexError": add_bad("row")}, ensures=[ar_post],
        exc_ensures=[unchanged], safety="fork",
        local_views={"rows": lambda ex, env: SGrid.empty("Cell")},
        opaque={"[Cell._empty_cell(self._table_id, row, col, self._model) for col in range(self.num_cols)]": new_cells_row},
        loops={1: LoopSpec([ar_build_inv], index="_i", havoc=[havoc_rows]),
               2: LoopSpec([ar_mid_inj, ar_renum_outer], index="_i", havoc=[havoc_heap], pre=[mid_facts]),
               3: LoopSpec([ar_renum_inner], index="_j", havoc=[havoc_heap])},
        replay=lambda plan_, c, inputs, ob: {"custom": "replay_edit", "native_module": plan_.native_module, "op": "add_row", "inputs": inputs},
        search=lambda plan_, c: {"custom": "search_edit", "native_module": plan_.native_module, "op": "add_row"}))

    # ------------------------------------------------------------------ add_column (default None)
    def ac_args(env):
        n = T(env["g_count"])
        st = env["g_start"]
        return n, z3.If(st.isnone, env["nc0"].t, st.val.t)

    def new_cells_cols(ex, env):
        """[Cell._empty_cell(table_id, row, start_col + col, model) for col in range(num_cols)]: freshly allocated cells"""
        n = T(env["num_cols"])
        row, start = T(env["row"]), T(env["start_col"])
        new = z3.Const(fresh_name("newcols"), RowArr)
        c, c2, ref = z3.Int(fresh_name("nc")), z3.Int(fresh_name("nc2")), z3.Int(fresh_name("ref"))
        alloc, hr, hc = Alloc(ex), Hrow(ex), Hcol(ex)
        ex.assume(z3.ForAll([c], z3.Implies(z3.And(0 <= c, c < n), z3.Not(z3.Select(alloc, z3.Select(new, c))))))
        ex.assume(z3.ForAll([c, c2], z3.Implies(z3.And(0 <= c, c < c2, c2 < n), z3.Select(new, c) != z3.Select(new, c2))))
        h = ex.extra_roots["heap"]
        hr2, hc2 = z3.Const(fresh_name("Hrow"), hr.sort()), z3.Const(fresh_name("Hcol"), hc.sort())
        al2 = z3.Const(fresh_name("alloc"), alloc.sort())
        ex.assume(z3.ForAll([ref], z3.Implies(z3.Select(alloc, ref), z3.And(z3.Select(al2, ref), z3.Select(hr2, ref) == z3.Select(hr, ref),
                                                                            z3.Select(hc2, ref) == z3.Select(hc, ref)))))
        ex.assume(z3.ForAll([c], z3.Implies(z3.And(0 <= c, c < n), z3.And(z3.Select(al2, z3.Select(new, c)),
                                                                         z3.Select(hr2, z3.Select(new, c)) == row,
                                                                         z3.Select(hc2, z3.Select(new, c)) == start + c))))
        h[("Cell", "row")], h[("Cell", "col")], h[("Cell", "__alloc__")] = hr2, hc2, al2
        return SRowVal(n, new, "Cell")

    def ac_shape(env, g, r):
        """row r of g is row r of g0 with n new cells inserted at start"""
        g0 = env["g0"]
        n, start = ac_args(env)
        w = env["nc0"].t + n
        c = z3.Int(fresh_name("sc"))
        return z3.And(z3.Select(g.rl, r) == w,
                      z3.ForAll([c], z3.Implies(z3.And(0 <= c, c < w), z3.If(
                          c < start, g.cell(r, c) == g0.cell(r, c),
                          z3.If(c < start + n, z3.Not(z3.Select(env["g_alloc0"], g.cell(r, c))), g.cell(r, c) == g0.cell(r, c - n))))))

    def ac_done(ex, env, g, lo, hi):
        n, start = ac_args(env)
        w = env["nc0"].t + n
        r, c = z3.Int(fresh_name("dr")), z3.Int(fresh_name("dc"))
        g0 = env["g0"]
        return z3.And(
            z3.ForAll([r], z3.Implies(z3.And(lo <= r, r < hi), z3.Select(g.rl, r) == w)),
            z3.ForAll([r, c], z3.Implies(z3.And(lo <= r, r < hi, 0 <= c, c < w), z3.And(
                z3.If(c < start, g.cell(r, c) == g0.cell(r, c),
                      z3.If(c < start + n, z3.Not(z3.Select(env["g_alloc0"], g.cell(r, c))), g.cell(r, c) == g0.cell(r, c - n))),
                z3.Select(Alloc(ex), g.cell(r, c)), z3.Select(Hcol(ex), g.cell(r, c)) == c, z3.Select(Hrow(ex), g.cell(r, c)) == r))),
            inj_rows(g, lo, hi, w))

    def inj_rows(g, lo, hi, w):
        r1, c1, r2, c2 = (z3.Int(fresh_name(x)) for x in ("r1", "c1", "r2", "c2"))
        return z3.ForAll([r1, c1, r2, c2], z3.Implies(
            z3.And(lo <= r1, r1 < hi, 0 <= c1, c1 < w, lo <= r2, r2 < hi, 0 <= c2, c2 < w, g.cell(r1, c1) == g.cell(r2, c2)),
            z3.And(r1 == r2, c1 == c2)))

    def ac_todo(ex, env, g, lo, hi):
        g0 = env["g0"]
        r, c = z3.Int(fresh_name("tr")), z3.Int(fresh_name("tc"))
        return z3.And(
            z3.ForAll([r], z3.Implies(z3.And(lo <= r, r < hi), z3.And(z3.Select(g.rl, r) == env["nc0"].t,
                                                                    z3.Select(g.at, r) == z3.Select(g0.at, r)))),
            z3.ForAll([r, c], z3.Implies(z3.And(lo <= r, r < hi, 0 <= c, c < env["nc0"].t), z3.And(
                z3.Select(Hcol(ex), g0.cell(r, c)) == c, z3.Select(Hrow(ex), g0.cell(r, c)) == r))))

    def alloc_grows(ex, env):
        ref = z3.Int(fresh_name("gref"))
        return z3.ForAll([ref], z3.Implies(z3.Select(env["g_alloc0"], ref), z3.Select(Alloc(ex), ref)))

    def ac_outer(ex, env):
        t = env["self"]
        g = t.fields["_data"]
        i = T(env["_i"])
        n, start = ac_args(env)
        return z3.And(g.nr == env["nr0"].t, T(t.fields["num_rows"]) == env["nr0"].t, T(t.fields["num_cols"]) == env["nc0"].t + n,
                      alloc_grows(ex, env), ac_done(ex, env, g, 0, i), ac_todo(ex, env, g, i, env["nr0"].t))

    def ac_inner(ex, env):
        t = env["self"]
        g = t.fields["_data"]
        row, j = T(env["row"]), T(env["_j"])
        n, start = ac_args(env)
        w = env["nc0"].t + n
        c = z3.Int(fresh_name("jc"))
        return z3.And(g.nr == env["nr0"].t, alloc_grows(ex, env), ac_done(ex, env, g, 0, row), ac_todo(ex, env, g, row + 1, env["nr0"].t),
                      ac_shape(env, g, row), inj_rows(g, row, row + 1, w),
                      z3.ForAll([c], z3.Implies(z3.And(0 <= c, c < w), z3.And(z3.Select(Alloc(ex), g.cell(row, c)),
                                                                             z3.Select(Hrow(ex), g.cell(row, c)) == row))),
                      z3.ForAll([c], z3.Implies(z3.And(0 <= c, c < j), z3.Select(Hcol(ex), g.cell(row, c)) == c)))

    def ac_post(ex, env):
        t = env["self"]
        g, g0 = t.fields["_data"], env["g0"]
        n, start = ac_args(env)
        nr1, nc1 = T(t.fields["num_rows"]), T(t.fields["num_cols"])
        r = z3.Int(fresh_name("qr"))
        return z3.And(nr1 == env["nr0"].t, nc1 == env["nc0"].t + n, rect(g, nr1, nc1),
                      z3.ForAll([r], z3.Implies(z3.And(0 <= r, r < nr1), ac_shape(env, g, r))), coords(ex, g, 0, nr1, nc1))
    ac_post.__name__ = ("every row' == row[:at] + count new (blank) cells + row[at:]; num_cols + count; rectangular; every cell "
                        "reports its own position")

    def havoc_grid_heap_alloc(ex, env):
        env["self"].fields["_data"] = SGrid.fresh(ex, "data_h")
        havoc_rows.__wrapped__(ex, env) if hasattr(havoc_rows, "__wrapped__") else None
        h = ex.extra_roots["heap"]
        h[("Cell", "row")] = z3.Const(fresh_name("Hrow"), z3.ArraySort(Int, Int))
        h[("Cell", "col")] = z3.Const(fresh_name("Hcol"), z3.ArraySort(Int, Int))
        h[("Cell", "__alloc__")] = z3.Const(fresh_name("alloc"), z3.ArraySort(Int, z3.BoolSort()))

    plan.target(Contract(
        "document:Table.add_column", entry=add_entry("col"), raises={"IndexError": add_bad("col")}, ensures=[ac_post],
        exc_ensures=[unchanged], safety="fork",
        opaque={"[Cell._empty_cell(self._table_id, row, start_col + col, self._model) for col in range(num_cols)]": new_cells_cols},
        loops={1: LoopSpec([ac_outer], index="_i", havoc=[havoc_grid_heap_alloc]),
               2: LoopSpec([ac_inner], index="_j", havoc=[havoc_heap])},
        replay=lambda plan_, c, inputs, ob: {"custom": "replay_edit", "native_module": plan_.native_module, "op": "add_column", "inputs": inputs},
        search=lambda plan_, c: {"custom": "search_edit", "native_module": plan_.native_module, "op": "add_column"}))

    # ------------------------------------------------------------------ Document.save: frame (syntactic, over-approximate)
    def save_frame():
        import ast
        from pyvc import extract
        mods = ["document", "model", "containers", "iwork", "iwafile", "cell", "xrefs", "formula", "numbers_uuid",
                "numbers_cache", "tokenizer", "bullets"]
        funcs = {}
        for m in mods:
            _, tree = extract.load_module(m)
            for n in ast.walk(tree):
                if isinstance(n, ast.FunctionDef):
                    funcs.setdefault(n.name, []).append((m, n))
        FILE_METHODS = {"write", "read", "close", "open", "seek", "writestr"}

        def callees(node):
            out = set()
            for c in ast.walk(node):
                if isinstance(c, ast.Call):
                    f = c.func
                    if isinstance(f, ast.Attribute):
                        recv = ast.unparse(f.value)
                        if f.attr in FILE_METHODS and not recv.startswith("self"):
                            continue  # a file/zip object, not a repository object
                        mod_of = {"self._model": "model", "model": "model", "self._model.objects": "containers",
                                  "self.objects": "containers", "self._iwork": "iwork", "self._handler": "containers"}
                        out.add((f.attr, "=" if recv == "self" else mod_of.get(recv, False), len(c.args) + len(c.keywords) + 1))
                    elif isinstance(f, ast.Name):
                        out.add((f.id, False, None))
            return out  # (name, restriction): "=" same module (self.m()), a module name (typed receiver), False (any)
        start = [(m, n) for (m, n) in funcs.get("save", []) if m == "document"]
        if not start:
            return False, "Document.save not found", 0
        seen, todo, reach = set(), list(start), []
        while todo:
            m, n = todo.pop()
            if id(n) in seen:
                continue
            seen.add(id(n))
            reach.append((m, n))
            def arity_ok(fn, nargs):
                if nargs is None or fn.args.vararg is not None or fn.args.kwarg is not None:
                    return True
                total = len(fn.args.posonlyargs) + len(fn.args.args) + len(fn.args.kwonlyargs)
                required = len(fn.args.posonlyargs) + len(fn.args.args) - len(fn.args.defaults)
                return required <= nargs <= total
            for name, same_mod, nargs in callees(n):
                todo.extend([(m2, n2) for (m2, n2) in funcs.get(name, [])
                             if (not same_mod or (m2 == m if same_mod == "=" else m2 == same_mod)) and arity_ok(n2, nargs)])
        FORB = {"row", "col", "_value", "_data", "num_rows", "num_cols"}
        hits = []
        for m, n in reach:
            for st in ast.walk(n):
                tg = st.targets if isinstance(st, ast.Assign) else [st.target] if isinstance(st, (ast.AugAssign, ast.AnnAssign)) else \
                    st.targets if isinstance(st, ast.Delete) else []
                for t in tg:
                    for x in ast.walk(t):
                        if isinstance(x, ast.Attribute) and x.attr in FORB and (isinstance(x.ctx, (ast.Store, ast.Del)) or
                                                                                 (x.attr == "_data" and x is not t)):
                            hits.append(f"{m}.{n.name}:L{st.lineno}: {ast.unparse(st)[:70]}")
        hits = sorted(set(hits))
        return (not hits), (hits[:6] or f"no store to cell value/row/col or Table._data/num_rows/num_cols in the {len(reach)} "
                                         "functions reachable from Document.save (name-based over-approximation of the call graph)"), len(reach)
    plan.ground.append(("save-assigns-no-grid-state", save_frame))


    # ------------------------------------------------------------------ add_row / add_column with a default: exactly the new cells are written
    # The grid effects are proved above (default None). Here the grid is abstracted away completely: only the ranges the fill loops run over
    # and the calls of Table.write matter. W[r][c] records a call write(r, c, default).
    from pyvc.sym import Custom, Bool as BoolS
    AAb2 = z3.ArraySort(Int, z3.ArraySort(Int, BoolS))

    class AnyGrid(Custom):
        """_data with every operation allowed and ignored"""
        def __init__(self, h):
            self.h = h

        def length(self, ex):
            return z3.Int(fresh_name("some_len"))

        def getitem(self, ex, idx, line):
            return AnyGrid(self.h) if not getattr(self, "row_level", False) else PObj("AnyCell", {})

        def setitem(self, ex, idx, v, line):
            return None

        def setslice(self, ex, lo, hi, v, line):
            return None

        def method(self, ex, name, args, kwargs, line):
            if name in ("append", "extend", "insert"):
                return None
            raise Unsupported(f"grid.{name}")

    class AnyRow(AnyGrid):
        row_level = True

    class AnyTop(AnyGrid):
        def getitem(self, ex, idx, line):
            return AnyRow(self.h)

    def fill_entry(axis):
        def entry(ex):
            nr, nc = ex.fresh("int", "num_rows0"), ex.fresh("int", "num_cols0")
            n, st = ex.fresh("int", "count"), ex.fresh("optint", "start")
            size = nr if axis == "row" else nc
            ex.assume(z3.And(nr.t >= 1, nc.t >= 1, n.t >= 0, z3.Or(st.isnone, z3.And(st.val.t >= 0, st.val.t < size.t))))
            holder = PObj("Ghost", {"W": z3.K(Int, z3.K(Int, z3.BoolVal(False)))})
            t = PObj("TableD", {"_data": AnyTop(holder), "num_rows": nr, "num_cols": nc, "_model": PObj("_NumbersModel", {}), "_table_id": ex.fresh("int", "tid"),
                                "g": holder})
            env = {"self": t, "default": ex.fresh("int", "default_value"), "g": holder, "g_nr0": nr, "g_nc0": nc, "g_count": n, "g_start": st}
            env["num_rows" if axis == "row" else "num_cols"] = n
            env["start_row" if axis == "row" else "start_col"] = st
            return env
        return entry

    def m_write(ex, o, a, k, l):
        h = o.fields["g"]
        ex.oblige(f"fill-writes-the-default@L{l}", T(a[2]) == T(ex.entry_env["default"]), "ghost", l)
        h.fields["W"] = z3.Store(h.fields["W"], T(a[0]), z3.Store(z3.Select(h.fields["W"], T(a[0])), T(a[1]), z3.BoolVal(True)))
    ctx.method_models = getattr(ctx, "method_models", {})
    ctx.method_models[("TableD", "write")] = m_write
    ctx.method_models[("_NumbersModel", "number_of_rows")] = lambda ex, o, a, k, l: None
    ctx.method_models[("_NumbersModel", "number_of_columns")] = lambda ex, o, a, k, l: None

    def Wat(env, r, c):
        return z3.Select(z3.Select(env["g"].fields["W"], r), c)

    def fill_block(env, axis):
        n = env["g_count"].t
        st = env["g_start"]
        if axis == "row":
            r0 = z3.If(st.isnone, env["g_nr0"].t, st.val.t)
            return r0, r0 + n, z3.IntVal(0), env["g_nc0"].t
        c0 = z3.If(st.isnone, env["g_nc0"].t, st.val.t)
        return z3.IntVal(0), env["g_nr0"].t, c0, c0 + n

    def W_is(env, axis, rows_done=None, row_cur=None, cols_done=None):
        """W marks exactly the block cells of the rows before rows_done, plus the first cols_done block cells of row_cur"""
        r0, r1, c0, c1 = fill_block(env, axis)
        r, c = z3.Int(fresh_name("wr")), z3.Int(fresh_name("wc"))
        inblock_cols = z3.And(c0 <= c, c < c1)
        if rows_done is None:
            done = z3.And(r0 <= r, r < r1, inblock_cols)
        else:
            done = z3.And(r0 <= r, r < rows_done, inblock_cols)
            if row_cur is not None:
                done = z3.Or(done, z3.And(r == row_cur, c0 <= c, c < cols_done))
        return z3.ForAll([r, c], Wat(env, r, c) == done)

    def hv_W(ex, env):
        env["g"].fields["W"] = z3.Const(fresh_name("W_h"), AAb2)

    def dims(env, axis):
        t = env["self"].fields
        if axis == "row":
            return z3.And(T(t["num_rows"]) == env["g_nr0"].t + env["g_count"].t, T(t["num_cols"]) == env["g_nc0"].t)
        return z3.And(T(t["num_rows"]) == env["g_nr0"].t, T(t["num_cols"]) == env["g_nc0"].t + env["g_count"].t)

    def start_is(env, axis):
        st = env["g_start"]
        v = env["start_row" if axis == "row" else "start_col"]
        size0 = env["g_nr0"].t if axis == "row" else env["g_nc0"].t
        return T(v) == z3.If(st.isnone, size0, st.val.t)

    true_inv = lambda axis: (lambda ex, env: z3.And(dims(env, axis), start_is(env, axis), W_is(env, axis, rows_done=fill_block(env, axis)[0])))
    # add_row: loops 4 (rows of the block) and 5 (columns)
    def ar_fill_outer(ex, env):
        r0, r1, c0, c1 = fill_block(env, "row")
        return z3.And(dims(env, "row"), start_is(env, "row"), W_is(env, "row", rows_done=r0 + T(env["_i"])))

    def ar_fill_inner(ex, env):
        return z3.And(dims(env, "row"), start_is(env, "row"), T(env["row"]) >= fill_block(env, "row")[0], T(env["row"]) < fill_block(env, "row")[1],
                      W_is(env, "row", rows_done=T(env["row"]), row_cur=T(env["row"]), cols_done=T(env["_j"])))

    def fill_post(axis):
        def post(ex, env):
            return z3.And(dims(env, axis), W_is(env, axis))
        post.__name__ = (f"add_{'row' if axis == 'row' else 'column'} with a default (any value, falsy ones included): Table.write(r, c, default) is called for "
                         "exactly the cells of the inserted block, and for no other cell")
        return post
    dummy = {"[Cell._empty_cell(self._table_id, row, col, self._model) for col in range(self.num_cols)]": lambda ex, env: PObj("AnyCells", {}),
             "[Cell._empty_cell(self._table_id, row, start_col + col, self._model) for col in range(num_cols)]": lambda ex, env: PObj("AnyCells", {}),
             "len(self._data[row])": lambda ex, env: env["self"].fields["num_cols"]}
    plan.target(Contract(
        "document:Table.add_row", label="default-fill", entry=fill_entry("row"), ensures=[fill_post("row")], safety="fork",
        opaque=dummy, local_views={"rows": lambda ex, env: AnyTop(None)},
        loops={1: LoopSpec([true_inv("row")], index="_a"), 2: LoopSpec([true_inv("row")], index="_b"), 3: LoopSpec([true_inv("row")], index="_c"),
               4: LoopSpec([ar_fill_outer], index="_i", havoc=[hv_W]), 5: LoopSpec([ar_fill_inner], index="_j", havoc=[hv_W])},
        search=lambda plan_, c: {"custom": "search_edit", "native_module": plan_.native_module, "op": "add_row"}))

    # add_column: loop 1 (rows), 2 (renumber), 3 (fill columns of the block in this row)
    def ac_fill_outer(ex, env):
        return z3.And(dims(env, "col"), start_is(env, "col"), W_is(env, "col", rows_done=T(env["_i"])))

    def ac_fill_mid(ex, env):
        return z3.And(dims(env, "col"), start_is(env, "col"), T(env["row"]) >= 0, T(env["row"]) < env["g_nr0"].t, W_is(env, "col", rows_done=T(env["row"])))

    def ac_fill_inner(ex, env):
        c0 = fill_block(env, "col")[2]
        return z3.And(dims(env, "col"), start_is(env, "col"), T(env["row"]) >= 0, T(env["row"]) < env["g_nr0"].t,
                      W_is(env, "col", rows_done=T(env["row"]), row_cur=T(env["row"]), cols_done=c0 + T(env["_j"])))
    plan.target(Contract(
        "document:Table.add_column", label="default-fill", entry=fill_entry("col"), ensures=[fill_post("col")], safety="fork",
        opaque=dummy,
        loops={1: LoopSpec([ac_fill_outer], index="_i", havoc=[hv_W]), 2: LoopSpec([ac_fill_mid], index="_b"), 3: LoopSpec([ac_fill_inner], index="_j", havoc=[hv_W])},
        search=lambda plan_, c: {"custom": "search_edit", "native_module": plan_.native_module, "op": "add_column"}))

    # "save/reopen" leg: the tile / row-info rebuild on save (every row is stored exactly once, in its own tile, with its own
    # offsets) is C07's contract; it is re-verified here because a table that has grown past one tile must reopen unchanged
    from contracts import C07
    p7 = C07.build()
    plan.import_targets(p7, lambda c: c.qual in ("model:_NumbersModel.recalculate_table_data", "model:_NumbersModel.recalculate_row_info"))
    for lem in p7.lemmas:
        plan.lemmas.append(lem)

    # ------------------------------------------------------------------ a new table shares no keyed list with the table it is modelled on
    # "saving ... the saved file reopens to the same grid": Document.save hands every table to the writers (C16's contract, re-verified here)
    from contracts import C16_save
    C16_save.add(plan, ctx, lambda plan_, c: {"custom": "search_edit", "native_module": plan_.native_module, "op": "add_row"})
    # "the saved file reopens to the same grid": numbers are stored through the decimal128 codec (C01's contracts and lemmas, re-verified here)
    from contracts import C01 as _C01
    _p1 = _C01.build()
    plan.import_targets(_p1, lambda c: c.qual in ("cell:_pack_decimal128", "cell:_unpack_decimal128"))
    for _lem in _p1.lemmas:
        if _lem.name.startswith("D128") or _lem.name == "IPOW_POS":
            plan.lemmas.append(_lem)
    from contracts.shared_ground import added_table_owns_every_keyed_list
    plan.ground.append(("added-table-owns-every-keyed-list", added_table_owns_every_keyed_list))
    # "saving ... may be repeated": the text keys of a save are not remembered for the next one (shared with C01)
    from contracts.shared_ground import keys_of_emptied_lists_not_memoised
    plan.ground.append(("keys-of-lists-emptied-on-save-are-not-memoised", keys_of_emptied_lists_not_memoised))

    plan.bounded.append(BoundedStandIn(
        "edit-histories", "c03_histories.py", ["--max-len", "2", "--random", "40", "--small"],
        thorough_args=["--max-len", "2", "--random", "400", "--random-len", "30"],
        bound="all histories of length <= 2 over 23 operations (thorough: 58 operations on 3x3 and 2x2 tables) of {write in/out of "
              "bounds, add/delete row/column at first/middle/last/end with counts 1-2 and defaults, edits of a second table and a "
              "second document, nonsensical counts, save} + 40 (400) seeded random histories of length 12 (30), each ending in "
              "save/reopen; lock-step plain reference grid",
        functions=["Table.write/add_row/add_column/delete_row/delete_column", "Sheet.add_table", "Document.save", "Document(path)"]))
    plan.assumptions += [
        "T-INV+ as class invariant (rectangular, sizes >= 1, cells pairwise distinct objects, each cell carries its coordinates)",
        "model.number_of_rows/number_of_columns only record the size (assumed, no effect on the grid)",
        "save/reopen equality, write(), defaults, table/sheet additions and isolation across documents: bounded stand-in only",
    ]
    plan.trusted += ["pyvc AST->SMT translation (cross-checked against CPython)", "z3 5.1.0 (quantified VCs)", "cvc5 1.0.3"]
    return plan

"""C20 - CSV import followed by CSV export reproduces the cell grid.

The statement is a relation between two files through two command-line programs (csv.reader -> type coercion with float() -> Document.write ->
save -> Document -> sigfig/str -> csv.writer).  Its cell-level content rests on Python's csv module, float() parsing of arbitrary spellings and the
document round trip of C01; no contract within the VC generator's reach expresses "the exported cell is the imported cell".  What is decided
deductively here is the error-reporting shape and the guards the fixes introduced:
  * complete syntactic obligations on _csv2numbers.py: every `raise` in the Converter and the transformers raises RuntimeError (the only
    exception main() turns into a one-line message and exit status 1); main() wraps every Converter call in that handler; the float coercion
    is guarded by math.isfinite; the CSV file is opened with newline=''; next() on the reader has a default;
  * Converter.save (contract-based, real source, any grid): Table.write is called for every cell with the value at that position, blank cells
    included, and the document is saved once;
  * cat-numbers' cell_as_string (contract-based, real source): a number cell is exported through the 15-digit rounding of its value, an empty
    cell as '', anything else as str(value) - no cell kind is exported as something else.
The grid round trip itself: bounded stand-in with Python's csv module as the reference reader/writer.
"""
import ast
import os

import z3

from pyvc.ctx import VerifCtx, Contract
from pyvc.plan import Plan, BoundedStandIn
from pyvc.sym import (Int, Str, Bool, PObj, PList, SInt, SStr, SBool, SFloat, FloatS, Unsupported, fresh_name, lift, wrap, ClassRef)
from pyvc import extract


def build():
    ctx = VerifCtx()
    plan = Plan("C20", ctx)
    plan.native_module = os.path.join(os.path.dirname(__file__), "C20_native.py")
    srch = lambda plan_, c: {"custom": "search_csv", "native_module": plan_.native_module}

    def module_tree():
        src = open(os.path.join(extract.REPO, "src", "numbers_parser", "_csv2numbers.py")).read()
        return ast.parse(src)

    def raises_are_runtime_errors():
        tree = module_tree()
        bad, n = [], 0
        for node in ast.walk(tree):
            if isinstance(node, ast.Raise) and node.exc is not None:
                n += 1
                name = ast.unparse(node.exc.func) if isinstance(node.exc, ast.Call) else ast.unparse(node.exc)
                if name not in ("RuntimeError", "NotImplementedError", "argparse.ArgumentTypeError"):
                    bad.append(f"L{node.lineno}: raise {name}")
        if n == 0:
            return False, "anchor lost: no raise statements found", 0
        return (not bad), bad[:5], n
    plan.ground.append(("converter-raises-only-RuntimeError", raises_are_runtime_errors))

    def main_handles():
        tree = module_tree()
        main = next((n for n in tree.body if isinstance(n, ast.FunctionDef) and n.name == "main"), None)
        if main is None:
            return False, "anchor lost: main() not found", 0
        calls = [n for n in ast.walk(main) if isinstance(n, ast.Call) and (ast.unparse(n.func) == "Converter" or ast.unparse(n.func).startswith("converter."))]
        tries = [n for n in ast.walk(main) if isinstance(n, ast.Try) and any(isinstance(h.type, ast.Name) and h.type.id == "RuntimeError" for h in n.handlers)]
        inside = set()
        for t in tries:
            for st in t.body:
                for n in ast.walk(st):
                    inside.add(id(n))
            for h in t.handlers:
                if h.type.id == "RuntimeError":
                    src = ast.unparse(h)
                    if "exit(1)" not in src or "print(e, file=stderr)" not in src:
                        return False, "the RuntimeError handler of main() no longer prints the message to stderr and exits with status 1", len(calls)
        outside = [ast.unparse(c)[:40] for c in calls if id(c) not in inside]
        if not calls:
            return False, "anchor lost: no Converter calls in main()", 0
        return (not outside), [f"call outside the RuntimeError handler: {x}" for x in outside][:5], len(calls)
    plan.ground.append(("main-reports-every-converter-error-in-one-line", main_handles))

    def guards():
        tree = module_tree()
        src = ast.unparse(tree)
        problems = []
        fn = next((n for n in ast.walk(tree) if isinstance(n, ast.FunctionDef) and n.name == "_transform_data"), None)
        if fn is None:
            return False, "anchor lost: _transform_data", 0
        # every assignment of a float(...) result into the row is under an isfinite test
        for node in ast.walk(fn):
            if isinstance(node, ast.Assign) and isinstance(node.targets[0], ast.Subscript) and ast.unparse(node.targets[0]) == "row[k]":
                v = ast.unparse(node.value)
                if v.startswith("float("):
                    problems.append(f"L{node.lineno}: row[k] = {v} stores the float without a finiteness test")
        # a field that is coerced becomes the double float() reads from it (cells hold doubles: any other numeric type - an int of 20, 34
        # or 40 digits - is stored as something else than the number the text denotes, or not at all)
        for node in ast.walk(fn):
            if isinstance(node, ast.Assign) and isinstance(node.targets[0], ast.Subscript) and ast.unparse(node.targets[0]) == "row[k]" \
                    and isinstance(node.value, ast.Name):
                src_name = node.value.id
                defs = [a.value for a in ast.walk(fn) if isinstance(a, ast.Assign) and any(isinstance(t, ast.Name) and t.id == src_name for t in a.targets)]
                for d in defs:
                    if not (isinstance(d, ast.Call) and ast.unparse(d.func) == "float"):
                        problems.append(f"L{d.lineno}: row[k] receives `{ast.unparse(d)[:80]}`: a coerced field must be the result of float(...)")
        floats = [n for n in ast.walk(fn) if isinstance(n, ast.Call) and ast.unparse(n.func) == "float"]
        finite = [n for n in ast.walk(fn) if isinstance(n, ast.If) and "math.isfinite" in ast.unparse(n.test)]
        if floats and not finite:
            problems.append("float() coercion without a math.isfinite guard: 'nan'/'inf'/'1e400' become cell values")
        rd = next((n for n in ast.walk(tree) if isinstance(n, ast.FunctionDef) and n.name == "_read_csv"), None)
        opens = [n for n in ast.walk(rd) if isinstance(n, ast.Call) and ast.unparse(n.func) == "open"]
        if not opens or not all(any(k.arg == "newline" and ast.unparse(k.value) in ("''", '""') for k in o.keywords) for o in opens):
            problems.append("the CSV file is not opened with newline='': line breaks inside quoted cells are translated")
        # the reader is the csv module's reader for the (sniffed or default) dialect, nothing else: any extra formatting parameter (an escape
        # character, another quote character, skipinitialspace ...) makes it read well-formed excel-dialect cells differently from how they are written
        for rc in [n for n in ast.walk(rd) if isinstance(n, ast.Call) and ast.unparse(n.func) == "csv.reader"]:
            extra = [k.arg for k in rc.keywords if k.arg not in ("dialect",)]
            if extra:
                problems.append(f"L{rc.lineno}: csv.reader is given {extra}: cells containing that character no longer come back as written")
        # the default text encoding decodes every character it accepts to itself: a codec that strips a leading U+FEFF (utf-8-sig) or needs a
        # byte-order mark (utf-16 / utf-32 without endianness) changes the first cell of a file
        defaults = []
        for n in ast.walk(tree):
            if isinstance(n, ast.AnnAssign) and isinstance(n.target, ast.Name) and n.target.id == "encoding" and isinstance(n.value, ast.Constant):
                defaults.append((n.lineno, n.value.value))
            if isinstance(n, ast.Call) and ast.unparse(n.func).endswith("add_argument") and any(isinstance(a, ast.Constant) and a.value == "--encoding" for a in n.args):
                defaults += [(n.lineno, k.value.value) for k in n.keywords if k.arg == "default" and isinstance(k.value, ast.Constant)]
        if len(defaults) < 2:
            problems.append(f"anchor lost: the default encodings of Converter and of the --encoding option ({defaults})")
        for ln, enc in defaults:
            if str(enc).lower().replace("_", "-") in ("utf-8-sig", "utf8-sig", "utf-16", "utf16", "utf-32", "utf32"):
                problems.append(f"L{ln}: default encoding {enc!r} treats a leading U+FEFF as a byte-order mark: a first cell that begins with that character loses it")
        if len({e for _, e in defaults}) > 1:
            problems.append(f"the Converter default and the --encoding default differ: {defaults}")
        nexts = [n for n in ast.walk(rd) if isinstance(n, ast.Call) and ast.unparse(n.func) == "next"]
        if any(len(n.args) < 2 for n in nexts):
            problems.append("next(csvreader) without a default: an empty file raises StopIteration")
        return (not problems), problems[:5], len(floats) + len(opens) + len(nexts)
    plan.ground.append(("coercion-and-reader-guards", guards))

    # ------------------------------------------------------------------ cat-numbers: cell_as_string
    SIG = z3.Function("sigfig_15", FloatS, Str)
    STR = z3.Function("str_of_value", Int, Str)
    for cname in ("ErrorCell", "NumberCell"):
        ctx.extra_globals[cname] = ClassRef(cname)

    def cs_entry(kind):
        def entry(ex):
            args = PObj("Args", {"formulas": False, "formatting": False})
            if kind == "number":
                cell = PObj("NumberCell", {"value": ex.fresh("float", "value"), "formula": None, "formatted_value": ex.fresh("str", "fv")})
            elif kind == "empty":
                cell = PObj("EmptyCell", {"value": None, "formula": None, "formatted_value": ""})
            elif kind == "error":
                cell = PObj("ErrorCell", {"value": None, "formula": None, "formatted_value": ""})
            else:
                cell = PObj("TextCell", {"value": ex.fresh("str", "value"), "formula": None, "formatted_value": ex.fresh("str", "fv")})
            return {"args": args, "cell": cell}
        return entry

    def cs_post(kind):
        def post(ex, env):
            r = env["result"]
            v = env["cell"].fields["value"]
            if kind == "number":
                return lift(r) == SIG(v.t) if isinstance(r, SStr) else z3.BoolVal(False)
            if kind == "empty":
                return z3.BoolVal(r == "")
            if kind == "error":
                return z3.BoolVal(r == "#REF!")
            return lift(r) == lift(v)
        post.__name__ = {"number": "a number cell is exported as its value rounded to 15 significant digits", "empty": "an empty cell is exported as ''",
                         "error": "an error cell is exported as '#REF!'", "text": "a text cell is exported as its text, unchanged"}[kind]
        return post
    for kind in ("number", "empty", "error", "text"):
        plan.target(Contract("_cat_numbers:cell_as_string", label=kind, entry=cs_entry(kind), ensures=[cs_post(kind)], safety="fork", search=srch,
                             opaque={"sigfig(cell.value, sigfigs=MAX_SIGNIFICANT_DIGITS, warn=False)": lambda ex, env: wrap(SIG(env["cell"].fields["value"].t))}))


    # ------------------------------------------------------------------ Converter.save: every cell of the grid is written, at its own position
    from pyvc.ctx import LoopSpec
    from pyvc.sym import Custom, as_int_term, is_intlike
    A = z3.ArraySort
    RL = z3.Function("row_length", Int, Int)
    VAL = z3.Function("cell_text", Int, Int, Str)  # the cell at a position (text cells: any string, the empty one included)

    def Tt(v):
        return as_int_term(v) if is_intlike(v) else lift(v)

    class Rows(Custom):
        def __init__(self, n):
            self.n = n

        def length(self, ex):
            return self.n

        def getitem(self, ex, idx, line):
            return RowC(Tt(idx))

        def prefixed_by(self, ex, plist):
            return self  # [header] + data rows: still "some list of rows" (lengths and values are uninterpreted functions of the position)

    class RowC(Custom):
        def __init__(self, r):
            self.r = r

        def length(self, ex):
            return RL(self.r)

        def getitem(self, ex, idx, line):
            return SStr(VAL(self.r, Tt(idx)))

    def sv_entry(ex):
        n = z3.Int(fresh_name("n_rows"))
        rr = z3.Int(fresh_name("rr"))
        ex.assume(z3.And(n >= 0, z3.ForAll([rr], RL(rr) >= 0)))  # row lengths are lengths
        holder = PObj("Ghost", {"W": z3.K(Int, z3.K(Int, z3.BoolVal(False)))})
        table = PObj("TableC", {"g": holder})
        conv = PObj("Converter", {"no_header": ex.fresh("bool", "no_header"), "output_filename": ex.fresh("str", "out"), "g_rows": Rows(n), "header": PObj("HeaderRow", {})})
        return {"self": conv, "g": holder, "g_n": SInt(n), "g_table": table, "g_saved": []}

    def m_write(ex, o, a, k, l):
        h = o.fields["g"]
        r, c, v = Tt(a[0]), Tt(a[1]), lift(a[2])
        ex.oblige(f"cell-written-at-its-own-position@L{l}", v == VAL(r, c), "ghost", l)
        h.fields["W"] = z3.Store(h.fields["W"], r, z3.Store(z3.Select(h.fields["W"], r), c, z3.BoolVal(True)))
    ctx.method_models = getattr(ctx, "method_models", {})
    ctx.method_models[("TableC", "write")] = m_write
    ctx.method_models[("TableC", "set_cell_formatting")] = lambda ex, o, a, k, l: None
    ctx.method_models[("DocC", "save")] = lambda ex, o, a, k, l: ex.entry_env["g_saved"].append(a[0])
    ctx.constructors["Document"] = lambda ex, args, kwargs, line: PObj("DocC", {})
    ctx.extra_globals["Document"] = ClassRef("Document")
    ctx.extra_globals["datetime"] = ClassRef("datetime")

    def Wat(env, r, c):
        return z3.Select(z3.Select(env["g"].fields["W"], r), c)

    def W_is(env, rows_done, row_cur=None, cols_done=None):
        r, c = z3.Int(fresh_name("wr")), z3.Int(fresh_name("wc"))
        done = z3.And(0 <= r, r < rows_done, 0 <= c, c < RL(r))
        if row_cur is not None:
            done = z3.Or(done, z3.And(r == row_cur, 0 <= c, c < cols_done))
        return z3.ForAll([r, c], Wat(env, r, c) == done)

    def hv_W(ex, env):
        env["g"].fields["W"] = z3.Const(fresh_name("W_h"), A(Int, A(Int, Bool)))

    def sv_outer(ex, env):
        i = Tt(env["_i"])
        return z3.And(i >= 0, i <= env["g_n"].t, W_is(env, i))

    def sv_inner(ex, env):
        j, row = Tt(env["_j"]), Tt(env["row_num"])
        return z3.And(j >= 0, j <= RL(row), row >= 0, row < env["g_n"].t, W_is(env, row, row, j))

    def sv_post(ex, env):
        return z3.And(W_is(env, env["g_n"].t), z3.BoolVal(len(env["g_saved"]) == 1))
    sv_post.__name__ = ("Table.write(r, c, value) is called for every cell of the grid (header row included) with the value at that position - blank "
                        "cells too - and for nothing else; then the document is saved once")
    plan.target(Contract(
        "_csv2numbers:Converter.save", entry=sv_entry, ensures=[sv_post], safety="fork", search=srch,
        opaque={"doc.sheets[0].tables[0]": lambda ex, env: ex.entry_env["g_table"],
                "[row.values() for row in self.data]": lambda ex, env: env["self"].fields["g_rows"]},
        loops={1: LoopSpec([sv_outer], index="_i", havoc=[hv_W]), 2: LoopSpec([sv_inner], index="_j", havoc=[hv_W])}))

    plan.bounded.append(BoundedStandIn(
        "csv-round-trip", "c20_csv.py", [], thorough_args=["--level", "2"], timeout=1500,
        bound="300 (thorough 1200) generated rectangular grids of 1..8 x 1..5 and 1..40 x 1..12 cells drawn from 45 text shapes (delimiters, quotes, "
              "CR/LF/CRLF, non-ASCII, astral), 32 numeric spellings (signs, decimals, thousands commas, exponents, underscores, non-ASCII digits, "
              "surrounding blanks), 14 special-float spellings and random strings x header / --no-header x --whitespace x --reverse; both programs "
              "run in process through their main(); 18 empty/malformed files for the error-report shape; a grid with repeated header cells "
              "(known finding)",
        functions=["_csv2numbers.main", "Converter._read_csv/_transform_data/save", "_cat_numbers.main/print_table/cell_as_string", "Document"]))
    plan.assumptions += [
        "Python's csv module (dialect excel) is the reference reader/writer; 'is a number' means float() accepts the cell with thousands commas "
        "removed, the result is finite and the cell is not a nan/inf spelling; numeric spellings carry at most 15 significant digits (C01's domain)",
        "no contract within reach expresses the cell-level round trip (csv module, float() parsing, document round trip): decided by the stand-in",
    ]
    plan.trusted += ["pyvc AST->SMT translation (cross-checked against CPython)", "z3 5.1.0", "cvc5 1.0.3"]
    plan.level = "exploration"  # the deciding method for the statement is the bounded stand-in; the contracts cover the layers around it
    plan.explanation = ("Mostly bounded: the error-reporting shape (only RuntimeError raised, handled in main with a one-line message and status 1), the "
                        "coercion/reader guards and cat-numbers' per-kind export are proved or checked completely; the grid round trip is a bounded "
                        "stand-in with Python's csv module as the reference, which reports the open known finding F-C20-1 (repeated header cells).")
    return plan

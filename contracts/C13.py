"""C13 - Displayed numbers agree numerically with the stored value.

Kernels (contract-based, real source):
  * _format_currency (every number text, currency code, accounting flag, sign): the display is symbol [+ tab] + the number text, in
    parentheses without its minus sign when accounting style shows a negative value - decoration only, every digit of the number text kept;
  * _format_fraction_parts_to (all integers): 'w', 'w n/d', 'n/d' or '0' by cases, a fraction equal to one is carried into the whole part,
    never 'n/n';
  * _unit-free part of the base format is NOT under contract (see below).
Rounding and digit generation go through the third-party sigfig package, float formatting ('%.nE'), Fraction.limit_denominator and
bin()/oct()/hex(): outside the VC generator's reach - the numeric relation "display read back == value rounded to the displayed precision"
is decided by the bounded stand-in (independent decimal/fraction/base oracle over generated values and formats).
"""
import os

import z3

from pyvc.ctx import VerifCtx, Contract
from pyvc.plan import Plan, BoundedStandIn
from pyvc.sym import (Int, Str, Bool, PObj, PDict, SInt, SStr, SBool, SFloat, FloatS, Unsupported, fresh_name, lift, wrap, as_int_term, is_intlike)
from pyvc import extract


def T(v):
    return as_int_term(v) if is_intlike(v) else lift(v)


def build():
    ctx = VerifCtx()
    plan = Plan("C13", ctx)
    plan.native_module = os.path.join(os.path.dirname(__file__), "C13_native.py")
    srch = lambda plan_, c: {"custom": "search_numbers", "native_module": plan_.native_module}

    # ------------------------------------------------------------------ _format_currency
    neg = z3.Function("float_is_negative", FloatS, Bool)
    SYM = z3.Function("currency_symbol", Str, Str)
    KNOWN = z3.Function("currency_has_symbol", Str, Bool)

    def float_compare(ex, op, a, b, line):
        import ast
        if isinstance(op, ast.Lt) and isinstance(a, SFloat) and b == 0:
            return neg(a.t)
        raise Unsupported("float comparison")
    ctx.float_compare = float_compare

    class Symbols(PDict):
        pass

    class SymbolTable:
        """CURRENCY_SYMBOLS: membership and lookup by (symbolic) code"""
    from pyvc.sym import Custom

    class SymTab(Custom):
        def contains(self, ex, key):
            return KNOWN(lift(key))

        def getitem(self, ex, idx, line):
            ex.safety(KNOWN(lift(idx)), "KeyError", "currency-code-known", line)
            return wrap(SYM(lift(idx)))
    ctx.extra_globals["CURRENCY_SYMBOLS"] = SymTab()

    def fc_entry(ex):
        text = ex.fresh("str", "number_text")
        nfmt = PObj("NumberFormat", {"currency_code": ex.fresh("str", "code"), "use_accounting_style": ex.fresh("bool", "accounting")})
        return {"value": ex.fresh("float", "value"), "number_format": nfmt, "g_text": text}

    def fc_post(ex, env):
        f = env["number_format"].fields
        code, acc = lift(f["currency_code"]), lift(f["use_accounting_style"])
        text, r = env["g_text"].t, lift(env["result"])
        sym = z3.If(KNOWN(code), SYM(code), z3.Concat(code, z3.StringVal(" ")))
        bare = z3.If(z3.PrefixOf(z3.StringVal("-"), text), z3.SubString(text, 1, z3.Length(text) - 1), text)
        want = z3.If(z3.And(acc, neg(env["value"].t)), z3.Concat(sym, z3.StringVal("\t("), bare, z3.StringVal(")")),
                     z3.If(acc, z3.Concat(sym, z3.StringVal("\t"), text), z3.Concat(sym, text)))
        return r == want
    fc_post.__name__ = ("display == symbol (or 'CODE ') + number text; accounting: symbol + tab + number text, negative values as symbol + tab + "
                        "'(' + number text without a leading minus + ')': every digit of the number text is kept")
    plan.target(Contract("cell:_format_currency", entry=fc_entry, ensures=[fc_post], safety="fork", result="str", search=srch,
                         opaque={"_format_decimal(value, number_format)": lambda ex, env: ex.entry_env["g_text"]},
                         canaries=[lambda ex, env: lift(env["result"]) == z3.Concat(SYM(lift(env["number_format"].fields["currency_code"])), env["g_text"].t)]))

    # ------------------------------------------------------------------ _format_fraction_parts_to
    def fp_post(ex, env):
        from pyvc.sym import py_str
        w, n, d, r = T(env["whole"]), T(env["numerator"]), T(env["denominator"]), lift(env["result"])
        carry = n == d
        w2, n2 = z3.If(carry, w + 1, w), z3.If(carry, 0, n)
        sp, sl = z3.StringVal(" "), z3.StringVal("/")
        want = z3.If(w2 > 0, z3.If(n2 == 0, py_str(w2), z3.Concat(py_str(w2), sp, py_str(n2), sl, py_str(d))),
                     z3.If(n2 == 0, z3.StringVal("0"), z3.Concat(py_str(n2), sl, py_str(d))))
        return r == want
    fp_post.__name__ = ("a fraction equal to one is carried into the whole part; then 'w' (no fraction), 'w n/d', '0' or 'n/d': the text never "
                        "shows n/n")
    plan.target(Contract("cell:_format_fraction_parts_to", params={"whole": "int", "numerator": "int", "denominator": "int"},
                         requires=["whole >= 0 and numerator >= 0 and denominator >= 1 and numerator <= denominator"],
                         ensures=[fp_post], safety="fork", result="str", search=srch,
                         canaries=['result == str(numerator) + "/" + str(denominator)']))

    plan.bounded.append(BoundedStandIn(
        "displayed-numbers", "c13_numbers.py", [], thorough_args=["--level", "2"],
        bound="6 format families (decimal, percentage, currency incl. accounting and every supported currency, scientific, base 2..36 with 0..8 "
              "places with minus sign / two's complement, fraction with the 9 accuracies) x 12000 (thorough 48000) generated values each (ties and "
              "carries like 999.995, powers of ten, negatives, values rounding to zero, up to 15 significant digits, |x| < 1e15) x decimal places "
              "0..10 and automatic x separator on/off x 4 negative styles; plus 240 (thorough 960) cells through Table.set_cell_formatting + "
              "Cell.formatted_value; displayed text parsed back by an independent decimal/fraction/base reader and compared with the value rounded "
              "to the displayed precision (both neighbours accepted at exact ties)",
        functions=["_format_decimal", "_format_currency", "_format_scientific", "_format_base", "_twos_complement", "_format_fraction", "_float_to_fraction",
                   "_float_to_n_digit_fraction", "Cell._custom_format", "Table.set_cell_formatting"]))
    plan.assumptions += [
        "_format_decimal's text is an arbitrary string in the _format_currency contract; float sign test uninterpreted; CURRENCY_SYMBOLS as an "
        "uninterpreted partial map",
        "no contract within reach expresses the numeric relation for _format_decimal/_format_scientific/_format_base/_twos_complement/"
        "_float_to_*: third-party sigfig rounding, float '%E' formatting, Fraction.limit_denominator and bin()/int(s, 2) string conversions; "
        "decided by the bounded stand-in only",
    ]
    plan.trusted += ["pyvc AST->SMT translation (cross-checked against CPython)", "z3 5.1.0", "cvc5 1.0.3 (string VCs)"]
    plan.level = "other"
    plan.explanation = ("Mostly bounded: only the decoration layers (_format_currency, _format_fraction_parts_to) are proved; the numeric relation between "
                        "value and displayed digits goes through sigfig, float formatting and Fraction, which the VC generator cannot model, and is a "
                        "bounded stand-in with an independent oracle.")
    return plan

"""C13 - Displayed numbers agree numerically with the stored value.

Kernels (contract-based, real source):
  * _format_currency (every number text, currency code, accounting flag, sign): the display is symbol [+ tab] + the number text, in
    parentheses without its minus sign when accounting style shows a negative value - decoration only, every digit of the number text kept;
  * _format_fraction_parts_to (all integers): 'w', 'w n/d', 'n/d' or '0' by cases, a fraction equal to one is carried into the whole part,
    never 'n/n';
  * _format_base, minus-sign mode (every value, every base 2..36): the digits the loop produces are the base-b expansion of |round(value)|
    (loop invariant |V| == value * b^n + sum d_i b^i with 0 <= d_i < b, proved with the induction lemma DIGITS-FRAME; termination by a
    decreases clause); the text is '-' iff negative + zero-fill(render(digits)) - rendering digits as characters and zero filling are
    uninterpreted here (stand-in).
Rounding and digit generation go through the third-party sigfig package, float formatting ('%.nE'), Fraction.limit_denominator and
bin()/oct()/hex(): outside the VC generator's reach - the numeric relation "display read back == value rounded to the displayed precision"
is decided by the bounded stand-in (independent decimal/fraction/base oracle over generated values and formats).
"""
import os

import z3

from pyvc.ctx import VerifCtx, Contract
from pyvc.plan import Plan, BoundedStandIn
from pyvc.sym import (Int, Str, Bool, PObj, PDict, SInt, SStr, SBool, SFloat, FloatS, Unsupported, fresh_name, lift, wrap, as_int_term, is_intlike)
from pyvc import extract


def T(v):
    return as_int_term(v) if is_intlike(v) else lift(v)


def build():
    ctx = VerifCtx()
    plan = Plan("C13", ctx)
    plan.native_module = os.path.join(os.path.dirname(__file__), "C13_native.py")
    srch = lambda plan_, c: {"custom": "search_numbers", "native_module": plan_.native_module}

    # ------------------------------------------------------------------ _format_currency
    neg = z3.Function("float_is_negative", FloatS, Bool)
    SYM = z3.Function("currency_symbol", Str, Str)
    KNOWN = z3.Function("currency_has_symbol", Str, Bool)

    def float_compare(ex, op, a, b, line):
        import ast
        if isinstance(op, ast.Lt) and isinstance(a, SFloat) and b == 0:
            return neg(a.t)
        raise Unsupported("float comparison")
    ctx.float_compare = float_compare

    class Symbols(PDict):
        pass

    class SymbolTable:
        """CURRENCY_SYMBOLS: membership and lookup by (symbolic) code"""
    from pyvc.sym import Custom

    class SymTab(Custom):
        def contains(self, ex, key):
            return KNOWN(lift(key))

        def getitem(self, ex, idx, line):
            ex.safety(KNOWN(lift(idx)), "KeyError", "currency-code-known", line)
            return wrap(SYM(lift(idx)))
    ctx.extra_globals["CURRENCY_SYMBOLS"] = SymTab()

    def fc_entry(ex):
        text = ex.fresh("str", "number_text")
        nfmt = PObj("NumberFormat", {"currency_code": ex.fresh("str", "code"), "use_accounting_style": ex.fresh("bool", "accounting")})
        return {"value": ex.fresh("float", "value"), "number_format": nfmt, "g_text": text}

    def fc_post(ex, env):
        f = env["number_format"].fields
        code, acc = lift(f["currency_code"]), lift(f["use_accounting_style"])
        text, r = env["g_text"].t, lift(env["result"])
        sym = z3.If(KNOWN(code), SYM(code), z3.Concat(code, z3.StringVal(" ")))
        bare = z3.If(z3.PrefixOf(z3.StringVal("-"), text), z3.SubString(text, 1, z3.Length(text) - 1), text)
        want = z3.If(z3.And(acc, neg(env["value"].t)), z3.Concat(sym, z3.StringVal("\t("), bare, z3.StringVal(")")),
                     z3.If(acc, z3.Concat(sym, z3.StringVal("\t"), text), z3.Concat(sym, text)))
        return r == want
    fc_post.__name__ = ("display == symbol (or 'CODE ') + number text; accounting: symbol + tab + number text, negative values as symbol + tab + "
                        "'(' + number text without a leading minus + ')': every digit of the number text is kept")
    plan.target(Contract("cell:_format_currency", entry=fc_entry, ensures=[fc_post], safety="fork", result="str", search=srch,
                         opaque={"_format_decimal(value, number_format)": lambda ex, env: ex.entry_env["g_text"]},
                         canaries=[lambda ex, env: lift(env["result"]) == z3.Concat(SYM(lift(env["number_format"].fields["currency_code"])), env["g_text"].t)]))

    # ------------------------------------------------------------------ _format_fraction_parts_to
    def fp_post(ex, env):
        from pyvc.sym import py_str
        w, n, d, r = T(env["whole"]), T(env["numerator"]), T(env["denominator"]), lift(env["result"])
        carry = n == d
        w2, n2 = z3.If(carry, w + 1, w), z3.If(carry, 0, n)
        sp, sl = z3.StringVal(" "), z3.StringVal("/")
        want = z3.If(w2 > 0, z3.If(n2 == 0, py_str(w2), z3.Concat(py_str(w2), sp, py_str(n2), sl, py_str(d))),
                     z3.If(n2 == 0, z3.StringVal("0"), z3.Concat(py_str(n2), sl, py_str(d))))
        return r == want
    fp_post.__name__ = ("a fraction equal to one is carried into the whole part; then 'w' (no fraction), 'w n/d', '0' or 'n/d': the text never "
                        "shows n/n")
    plan.target(Contract("cell:_format_fraction_parts_to", params={"whole": "int", "numerator": "int", "denominator": "int"},
                         requires=["whole >= 0 and numerator >= 0 and denominator >= 1 and numerator <= denominator"],
                         ensures=[fp_post], safety="fork", result="str", search=srch,
                         canaries=['result == str(numerator) + "/" + str(denominator)']))



    # ------------------------------------------------------------------ _format_decimal without grouping: which roundings produce the digits
    R15 = z3.Function("sigfig_15_digits_text", FloatS, Str)            # sigfig(value, 15, type=str)
    RDEC = z3.Function("sigfig_decimals_text", Str, Int, Str)          # sigfig(text, decimals=places, type=str)
    NEGF = z3.Function("float_negated", FloatS, FloatS)
    ISINT = z3.Function("float_is_integer", FloatS, Bool)
    AUTO = extract.module_const("constants", "DECIMAL_PLACES_AUTO")

    def fd_entry(ex):
        places = ex.fresh("int", "decimal_places")
        ex.assume(z3.And(places.t >= 0, places.t < AUTO))
        ns = ex.fresh("int", "negative_style")
        ex.assume(z3.And(ns.t >= 0, ns.t <= 3))
        nfmt = PObj("NumberFormat", {"negative_style": ns, "show_thousands_separator": False, "decimal_places": places})
        return {"value": ex.fresh("float", "value"), "number_format": nfmt, "percent": ex.fresh("bool", "percent")}

    def fd_float_unop(ex, op, a, line):
        return SFloat(NEGF(a.t))
    ctx.float_unop = fd_float_unop
    ctx.method_models = getattr(ctx, "method_models", {})

    def fd_post(ex, env):
        v = env["value"].t
        f = env["number_format"].fields
        ns, places = T(f["negative_style"]), T(f["decimal_places"])
        isneg = neg(v)
        shown = z3.If(z3.And(isneg, ns >= 1), NEGF(v), v)
        digits = RDEC(R15(shown), places)
        body = z3.If(lift(env["percent"]), z3.Concat(digits, z3.StringVal("%")), digits)
        want = z3.If(z3.And(isneg, ns >= 2), z3.Concat(z3.StringVal("("), body, z3.StringVal(")")), body)
        return lift(env["result"]) == want
    fd_post.__name__ = ("fixed decimals, no grouping: the digits are sigfig(sigfig(x, 15 significant digits), decimals=places) of x = the value (negative "
                        "styles 1-3: of its magnitude), then '%' for percentages, then parentheses for negative values under styles 2-3 - two roundings, "
                        "in that order, and nothing else touches a digit")
    plan.target(Contract(
        "cell:_format_decimal", label="fixed-places-no-grouping", entry=fd_entry, ensures=[fd_post], safety="fork", result="str", search=srch,
        opaque={"sigfig(value, MAX_SIGNIFICANT_DIGITS, type=str, warn=False)": lambda ex, env: SStr(R15(env["value"].t)),
                "sigfig(formatted_value, decimals=number_format.decimal_places, type=str)":
                    lambda ex, env: SStr(RDEC(lift(env["formatted_value"]), T(env["number_format"].fields["decimal_places"]))),
                "value.is_integer()": lambda ex, env: SBool(ISINT(env["value"].t))}))

    # ------------------------------------------------------------------ _format_base: the digit loop (every integer, every base 2..36)
    from pyvc.ctx import LoopSpec
    from pyvc.plan import Lemma
    from pyvc.sym import Custom, SOpt
    A = z3.ArraySort
    ipow = ctx.specfns["ipow"]
    ACC = ctx.spec("digits_le_value", [A(Int, Int), Int, Int, Int],
                   lambda f, at, b, k: z3.Implies(k >= 0, f(at, b, k) == z3.If(k == 0, z3.IntVal(0), f(at, b, k - 1) + z3.Select(at, k - 1) * ipow.f(b, k - 1))),
                   None, "value of the first k little-endian digits in base b")
    acc = ACC.f
    RENDER = z3.Function("digits_rendered_most_significant_first", A(Int, Int), Int, Str)
    ZFILL = z3.Function("zero_filled", Str, Int, Str)
    ROUND = z3.Function("python_round", FloatS, Int)

    class Digits(Custom):
        def __init__(self, ln, at):
            self.ln, self.at = ln, at

        def length(self, ex):
            return self.ln

        def method(self, ex, name, args, kwargs, line):
            if name != "append":
                raise Unsupported(f"digit list .{name}")
            self.at = z3.Store(self.at, self.ln, T(args[0]))
            self.ln = self.ln + 1

    def fb_entry(ex):
        b = ex.fresh("int", "base")
        ex.assume(z3.And(b.t >= 2, b.t <= 36))
        nfmt = PObj("NumberFormat", {"base": b, "base_places": ex.fresh("int", "places"), "base_use_minus_sign": True})
        v = ex.fresh("float", "value")
        return {"value": v, "number_format": nfmt, "g_b": b, "g_V": SInt(ROUND(v.t))}

    def fb_float_compare(ex, op, a, b_, line):
        import ast as _ast
        if isinstance(a, SFloat) and b_ == 0 and isinstance(op, _ast.Eq):
            return z3.Bool(fresh_name("value_is_zero"))
        return float_compare(ex, op, a, b_, line)
    ctx.float_compare = fb_float_compare
    ctx.float_eq_hook = None

    def fb_inv(ex, env):
        d = env["formatted_value"]
        b, V = env["g_b"].t, env["g_V"].t
        val = T(env["value"])
        k = z3.Int(fresh_name("dk"))
        absV = z3.If(V >= 0, V, -V)
        return z3.And(d.ln >= 0, val >= 0, absV == val * ipow.f(b, d.ln) + acc(d.at, b, d.ln), ipow.f(b, d.ln) >= 1,
                      z3.ForAll([k], z3.Implies(z3.And(0 <= k, k < d.ln), z3.And(z3.Select(d.at, k) >= 0, z3.Select(d.at, k) < b))))

    def fb_havoc(ex, env):
        env["formatted_value"] = Digits(z3.Int(fresh_name("n_digits")), z3.Const(fresh_name("digit_at"), A(Int, Int)))

    def fb_hints(ex, env):
        d = env["formatted_value"]
        b = env["g_b"].t
        k = z3.Int(fresh_name("fk"))
        new_at = z3.Store(d.at, d.ln, T(env["value"]) % b)
        frame = FRAME_instance(d.at, d.ln, T(env["value"]) % b, b, d.ln)
        return [ipow.unfold(ipow.f, b, d.ln + 1), ipow.unfold(ipow.f, b, z3.IntVal(0)), ACC.unfold(acc, d.at, b, z3.IntVal(0)),
                ACC.unfold(acc, new_at, b, d.ln + 1), frame]

    # FRAME: storing at position n does not change the value of the first k <= n digits (induction on k)
    at0, n0, d0, b0, k0 = z3.Const("at", A(Int, Int)), z3.Int("n"), z3.Int("d"), z3.Int("b"), z3.Int("k")

    def FRAME_instance(at, n, d, b, k):
        return z3.Implies(z3.And(0 <= k, k <= n), acc(z3.Store(at, n, d), b, k) == acc(at, b, k))
    plan.lemma(Lemma("DIGITS-FRAME", "writing digit n leaves the value of the first k <= n digits unchanged (induction on k)",
                     [("base", [ACC.unfold(acc, z3.Store(at0, n0, d0), b0, z3.IntVal(0)), ACC.unfold(acc, at0, b0, z3.IntVal(0)), n0 >= 0],
                       FRAME_instance(at0, n0, d0, b0, z3.IntVal(0))),
                      ("step", [0 <= k0, k0 < n0, FRAME_instance(at0, n0, d0, b0, k0), ACC.unfold(acc, z3.Store(at0, n0, d0), b0, k0 + 1),
                                ACC.unfold(acc, at0, b0, k0 + 1)], FRAME_instance(at0, n0, d0, b0, k0 + 1))],
                     instance=lambda at, n, d, b, k: FRAME_instance(at, n, d, b, k)))

    def fb_join(ex, env):
        d = env["formatted_value"]
        ex.entry_env["g_digits"] = d
        return wrap(RENDER(d.at, d.ln))

    def fb_post(ex, env):
        e0 = ex.entry_env
        if "g_digits" not in e0:
            return z3.BoolVal(True)  # the zero path returns before the loop ('0' padded): covered by the stand-in
        d = e0["g_digits"]
        b, V = env["g_b"].t, env["g_V"].t
        places = T(env["number_format"].fields["base_places"])
        absV = z3.If(V >= 0, V, -V)
        k = z3.Int(fresh_name("pk"))
        body = ZFILL(RENDER(d.at, d.ln), places)
        return z3.And(acc(d.at, b, d.ln) == absV,
                      z3.ForAll([k], z3.Implies(z3.And(0 <= k, k < d.ln), z3.And(z3.Select(d.at, k) >= 0, z3.Select(d.at, k) < b))),
                      lift(env["result"]) == z3.If(V < 0, z3.Concat(z3.StringVal("-"), body), body))
    fb_post.__name__ = ("minus-sign mode, value != 0: the digits d_0..d_{n-1} the loop produces satisfy sum d_i * base^i == |round(value)| with 0 <= d_i < "
                        "base; the text is '-' (iff negative) + zero-fill(render(digits, most significant first), places)")
    plan.target(Contract(
        "cell:_format_base", label="minus-sign", entry=fb_entry, ensures=[fb_post], safety="fork", result="str", search=srch,
        opaque={"round(value)": lambda ex, env: ex.entry_env["g_V"],
                "''.join([INT_TO_BASE_CHAR[x] for x in formatted_value[::-1]])": fb_join,
                "'0'.zfill(number_format.base_places)": lambda ex, env: wrap(ZFILL(z3.StringVal("0"), T(env["number_format"].fields["base_places"]))),
                "formatted_value.zfill(number_format.base_places)": lambda ex, env: wrap(ZFILL(lift(env["formatted_value"]), T(env["number_format"].fields["base_places"])))},
        local_views={"formatted_value": lambda ex, env: Digits(z3.IntVal(0), z3.K(Int, z3.IntVal(0)))},
        loops={1: LoopSpec([fb_inv], havoc=[fb_havoc], hints=[fb_hints], kinds={"formatted_value": "skip"}, decreases="value")}))

    def _native_ground(fn):
        def run():
            from pyvc.run import native_call
            res = native_call({"custom": fn, "native_module": plan.native_module})
            if "violated" not in res:
                return False, f"native ground check {fn} did not run: {str(res)[:300]}", 0
            return (not res["violated"]), res.get("detail", ""), res.get("count", 0)
        return run
    # _twos_complement goes through log2 / bin() / bit strings: no contract within reach; a sampled ground check around the width boundaries
    plan.ground.append(("twos-complement-reads-back (sampled: [-70000,-1] and around powers of two)", _native_ground("ground_twos_complement")))

    plan.bounded.append(BoundedStandIn(
        "displayed-numbers", "c13_numbers.py", [], thorough_args=["--level", "2"],
        bound="6 format families (decimal, percentage, currency incl. accounting and every supported currency, scientific, base 2..36 with 0..8 "
              "places with minus sign / two's complement, fraction with the 9 accuracies) x 12000 (thorough 48000) generated values each (ties and "
              "carries like 999.995, powers of ten, negatives, values rounding to zero, up to 15 significant digits, |x| < 1e15) x decimal places "
              "0..10 and automatic x separator on/off x 4 negative styles; plus 240 (thorough 960) cells through Table.set_cell_formatting + "
              "Cell.formatted_value; displayed text parsed back by an independent decimal/fraction/base reader and compared with the value rounded "
              "to the displayed precision (both neighbours accepted at exact ties)",
        functions=["_format_decimal", "_format_currency", "_format_scientific", "_format_base", "_twos_complement", "_format_fraction", "_float_to_fraction",
                   "_float_to_n_digit_fraction", "Cell._custom_format", "Table.set_cell_formatting"]))
    plan.assumptions += [
        "_format_decimal's text is an arbitrary string in the _format_currency contract; float sign test uninterpreted; CURRENCY_SYMBOLS as an "
        "uninterpreted partial map",
        "no contract within reach expresses the numeric relation for _format_decimal/_format_scientific/_format_base/_twos_complement/"
        "_float_to_*: third-party sigfig rounding, float '%E' formatting, Fraction.limit_denominator and bin()/int(s, 2) string conversions; "
        "decided by the bounded stand-in only",
    ]
    plan.trusted += ["pyvc AST->SMT translation (cross-checked against CPython)", "z3 5.1.0", "cvc5 1.0.3 (string VCs)"]
    plan.level = "exploration"  # the deciding method for the statement is the bounded stand-in; the contracts cover the layers around it
    plan.explanation = ("Mostly bounded: only the decoration layers (_format_currency, _format_fraction_parts_to) are proved; the numeric relation between "
                        "value and displayed digits goes through sigfig, float formatting and Fraction, which the VC generator cannot model, and is a "
                        "bounded stand-in with an independent oracle.")
    return plan

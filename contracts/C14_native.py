"""Native side of C14: complete evaluation of the directive table over each field's domain; searches for failing durations."""
import os
import sys
import warnings

sys.path.insert(0, os.path.dirname(os.path.dirname(os.path.abspath(__file__))))


def ground_directives(job):
    from bounded import c14_datetime as D
    from numbers_parser.constants import DATETIME_FIELD_MAP
    warnings.simplefilter("ignore")
    missing = sorted(set(DATETIME_FIELD_MAP) ^ set(D.ORACLE))
    if missing:
        return {"violated": True, "detail": f"directive table and documented table differ on {missing}", "count": 0}
    n = 0
    for d in sorted(D.ORACLE):
        for v in D.field_values(d):
            n += 1
            got = D.render(d, v)
            want = D.ORACLE[d](v)
            if got != want:
                return {"violated": True, "detail": f"directive {d!r} at {v.isoformat()}: displayed {got!r}, documented meaning gives {want!r}", "count": n}
    return {"violated": False, "detail": "", "count": n}


def search_durations(job):
    from bounded import c14_datetime as D
    for style in (0, 1, 2):
        for ms in (0, 1000, 60000, 3600000, 86400000, 604800000, 1209600000, 694861001, 90061001, 59999, 3599999):
            for (lg, sm, auto) in [(1, 32, True)] + [(a, b, False) for a in (1, 2, 4, 8, 16, 32) for b in (1, 2, 4, 8, 16, 32) if a <= b]:
                try:
                    err = D.check_duration(ms, style, lg, sm, auto)
                except Exception as e:  # noqa: BLE001
                    err = f"duration {ms} ms style {style} units {lg}..{sm} auto={auto}: raised {type(e).__name__}: {e}"
                if err:
                    return {"violated": True, "detail": err, "job": {"custom": "replay_duration", "args": [ms, style, lg, sm, auto]}}
    return {"violated": False}


def replay_duration(job):
    from bounded import c14_datetime as D
    err = D.check_duration(*job["args"])
    return {"violated": bool(err), "detail": err or ""}


def search_formats(job):
    from bounded import c14_datetime as D
    warnings.simplefilter("ignore")
    for seed in (1, 2, 3):
        r = D.run_case({"kind": "composition", "seed": seed, "n": 300})
        if r and not r.get("ok"):
            return {"violated": True, "detail": r["detail"], "job": {"custom": "replay_composition", "seed": seed}}
    return {"violated": False}


def replay_composition(job):
    from bounded import c14_datetime as D
    r = D.run_case({"kind": "composition", "seed": job["seed"], "n": 300})
    return {"violated": bool(r and not r.get("ok")), "detail": (r or {}).get("detail", "")}


NATIVE = {}

"""Package-level structural obligations shared by several properties (pure AST checks over /repo's current source)."""
import os


def added_table_owns_every_keyed_list():
    """model.py: the lists in which the library allocates keys PER TABLE are the fields named in `DataLists(self, "<field>", ...)`; add_table
    copies the source table's data-store references and must replace each of those fields (and drop the merge map) - a shared list is
    written by two tables under the same keys, so a format or style given to a cell of one table shows up in the other after a later save"""
    import ast as _ast
    from pyvc import extract as _ex
    tree = _ast.parse(open(os.path.join(_ex.SRC, "model.py")).read())
    keyed = set()
    for n in _ast.walk(tree):
        if isinstance(n, _ast.Call) and _ast.unparse(n.func) == "DataLists" and len(n.args) >= 2 and isinstance(n.args[1], _ast.Constant):
            keyed.add(n.args[1].value)
    fn = next((x for x in _ast.walk(tree) if isinstance(x, _ast.FunctionDef) and x.name == "add_table" and any(a.arg == "from_table_id" or a.arg == "sheet_id" for a in x.args.args)), None)
    if not keyed or fn is None:
        return False, f"anchor lost: keyed lists {sorted(keyed)}, add_table {'found' if fn else 'not found'}", 0
    replaced, dropped = set(), set()
    for n in _ast.walk(fn):
        if isinstance(n, _ast.Assign) and isinstance(n.targets[0], _ast.Subscript) and _ast.unparse(n.targets[0].value) == "data_store_refs" \
                and isinstance(n.targets[0].slice, _ast.Constant):
            replaced.add(n.targets[0].slice.value)
        if isinstance(n, _ast.Call) and _ast.unparse(n.func) == "data_store_refs.pop" and n.args and isinstance(n.args[0], _ast.Constant):
            dropped.add(n.args[0].value)
    if not replaced:
        return False, "anchor lost: add_table no longer builds data_store_refs", 0
    bad = [f"add_table leaves the source table's `{k}` list in the new table's data store: both tables allocate keys in it" for k in sorted(keyed - replaced)]
    if "merge_region_map" not in dropped | replaced:
        bad.append("add_table leaves the source table's merge map in the new table's data store: the new table reports the other table's merged rectangles")
    return (not bad), (bad[:4] or f"add_table replaces {sorted(keyed)} and drops the merge map"), len(keyed) + 1


def keys_of_emptied_lists_not_memoised():
    """model.py: a lookup list that is re-initialised (`self.X.init(...)`: every save empties the string list and restarts its keys)
    hands out keys that are only valid until the next re-initialisation; a memoised method that obtains such keys
    (`self.X.lookup_key(...)`) would return the key of an earlier save for a value the list no longer holds."""
    import ast as _ast
    from pyvc import extract as _ex
    tree = _ast.parse(open(os.path.join(_ex.SRC, "model.py")).read())
    emptied = set()
    for n in _ast.walk(tree):
        if isinstance(n, _ast.Call) and isinstance(n.func, _ast.Attribute) and n.func.attr == "init" and isinstance(n.func.value, _ast.Attribute) \
                and _ast.unparse(n.func.value.value) == "self":
            emptied.add(n.func.value.attr)
    if not emptied:
        return False, "anchor lost: no lookup list is re-initialised in model.py (the string list used to be)", 0
    bad, seen = [], 0
    for cls_ in [c for c in _ast.walk(tree) if isinstance(c, _ast.ClassDef)]:
        for fn in [x for x in cls_.body if isinstance(x, _ast.FunctionDef)]:
            uses = [x for x in emptied if any(isinstance(n, _ast.Call) and _ast.unparse(n.func) == f"self.{x}.lookup_key" for n in _ast.walk(fn))]
            if not uses:
                continue
            seen += 1
            if any("cache" in _ast.unparse(d) for d in fn.decorator_list):
                bad.append(f"{cls_.name}.{fn.name} is memoised but obtains keys of self.{uses[0]}, which every save empties and renumbers: after a "
                           "second save of the same open document, text written before the first save is stored under a stale key")
    if not seen:
        return False, f"anchor lost: no method obtains keys of {sorted(emptied)}", 0
    return (not bad), (bad[:3] or f"methods obtaining keys of {sorted(emptied)} are not memoised"), seen

"""Package-level structural obligations shared by several properties (pure AST checks over /repo's current source)."""
import os


def added_table_owns_every_keyed_list():
    """model.py: the lists in which the library allocates keys PER TABLE are the fields named in `DataLists(self, "<field>", ...)`; add_table
    copies the source table's data-store references and must replace each of those fields (and drop the merge map) - a shared list is
    written by two tables under the same keys, so a format or style given to a cell of one table shows up in the other after a later save"""
    import ast as _ast
    from pyvc import extract as _ex
    tree = _ast.parse(open(os.path.join(_ex.SRC, "model.py")).read())
    keyed = set()
    for n in _ast.walk(tree):
        if isinstance(n, _ast.Call) and _ast.unparse(n.func) == "DataLists" and len(n.args) >= 2 and isinstance(n.args[1], _ast.Constant):
            keyed.add(n.args[1].value)
    fn = next((x for x in _ast.walk(tree) if isinstance(x, _ast.FunctionDef) and x.name == "add_table" and any(a.arg == "from_table_id" or a.arg == "sheet_id" for a in x.args.args)), None)
    if not keyed or fn is None:
        return False, f"anchor lost: keyed lists {sorted(keyed)}, add_table {'found' if fn else 'not found'}", 0
    replaced, dropped = set(), set()
    for n in _ast.walk(fn):
        if isinstance(n, _ast.Assign) and isinstance(n.targets[0], _ast.Subscript) and _ast.unparse(n.targets[0].value) == "data_store_refs" \
                and isinstance(n.targets[0].slice, _ast.Constant):
            replaced.add(n.targets[0].slice.value)
        if isinstance(n, _ast.Call) and _ast.unparse(n.func) == "data_store_refs.pop" and n.args and isinstance(n.args[0], _ast.Constant):
            dropped.add(n.args[0].value)
    if not replaced:
        return False, "anchor lost: add_table no longer builds data_store_refs", 0
    bad = [f"add_table leaves the source table's `{k}` list in the new table's data store: both tables allocate keys in it" for k in sorted(keyed - replaced)]
    if "merge_region_map" not in dropped | replaced:
        bad.append("add_table leaves the source table's merge map in the new table's data store: the new table reports the other table's merged rectangles")
    return (not bad), (bad[:4] or f"add_table replaces {sorted(keyed)} and drops the merge map"), len(keyed) + 1


def keys_of_emptied_lists_not_memoised():
    """model.py: a lookup list that is re-initialised (`self.X.init(...)`: every save empties the string list and restarts its keys)
    hands out keys that are only valid until the next re-initialisation; a memoised method that obtains such keys
    (`self.X.lookup_key(...)`) would return the key of an earlier save for a value the list no longer holds."""
    import ast as _ast
    from pyvc import extract as _ex
    tree = _ast.parse(open(os.path.join(_ex.SRC, "model.py")).read())
    emptied = set()
    for n in _ast.walk(tree):
        if isinstance(n, _ast.Call) and isinstance(n.func, _ast.Attribute) and n.func.attr == "init" and isinstance(n.func.value, _ast.Attribute) \
                and _ast.unparse(n.func.value.value) == "self":
            emptied.add(n.func.value.attr)
    if not emptied:
        return False, "anchor lost: no lookup list is re-initialised in model.py (the string list used to be)", 0
    bad, seen = [], 0
    for cls_ in [c for c in _ast.walk(tree) if isinstance(c, _ast.ClassDef)]:
        for fn in [x for x in cls_.body if isinstance(x, _ast.FunctionDef)]:
            uses = [x for x in emptied if any(isinstance(n, _ast.Call) and _ast.unparse(n.func) == f"self.{x}.lookup_key" for n in _ast.walk(fn))]
            if not uses:
                continue
            seen += 1
            if any("cache" in _ast.unparse(d) for d in fn.decorator_list):
                bad.append(f"{cls_.name}.{fn.name} is memoised but obtains keys of self.{uses[0]}, which every save empties and renumbers: after a "
                           "second save of the same open document, text written before the first save is stored under a stale key")
    if not seen:
        return False, f"anchor lost: no method obtains keys of {sorted(emptied)}", 0
    return (not bad), (bad[:3] or f"methods obtaining keys of {sorted(emptied)} are not memoised"), seen


def allocators_are_not_memoised():
    """model.py / containers.py: a method that hands out the NEXT identifier (its name starts with next_ or new_) computes it from the
    current state of the document; memoised, it hands out the same identifier again - two images with one data identifier, two objects
    with one message identifier"""
    import ast as _ast
    from pyvc import extract as _ex
    bad, n = [], 0
    for mod in ("model.py", "containers.py"):
        tree = _ast.parse(open(os.path.join(_ex.SRC, mod)).read())
        for fn in [x for x in _ast.walk(tree) if isinstance(x, _ast.FunctionDef) and x.name.startswith(("next_", "new_"))]:
            n += 1
            if any("cache" in _ast.unparse(d) for d in fn.decorator_list):
                bad.append(f"{mod}:{fn.name} is memoised: every call after the first returns the identifier handed out first")
    if n == 0:
        return False, "anchor lost: no next_* / new_* allocator found", 0
    return (not bad), (bad[:3] or f"{n} allocators, none memoised"), n


def decoded_cells_always_look_up_their_merge_state():
    """cell.py: every cell decoded from storage - whatever it holds - gets its merge state from the table's merge map for its own position:
    the call is not under a condition (a blank top-left cell of a merged rectangle is still its anchor)"""
    import ast as _ast
    from pyvc import extract as _ex
    tree = _ast.parse(open(os.path.join(_ex.SRC, "cell.py")).read())
    fn = next((x for x in _ast.walk(tree) if isinstance(x, _ast.FunctionDef) and x.name == "_from_storage"), None)
    if fn is None:
        return False, "anchor lost: Cell._from_storage", 0
    top = [s for s in fn.body if isinstance(s, _ast.Expr) and isinstance(s.value, _ast.Call) and _ast.unparse(s.value.func).endswith("._set_merge")]
    every = [c for c in _ast.walk(fn) if isinstance(c, _ast.Call) and _ast.unparse(c.func).endswith("._set_merge")]
    if not every:
        return False, "anchor lost: _from_storage no longer sets the merge state", 0
    ok = len(top) == 1 and len(every) == 1 and "merge_cells" in _ast.unparse(top[0].value.args[0]) and "(row, col)" in _ast.unparse(top[0].value.args[0])
    if ok:
        return True, "one unconditional _set_merge(<merge map>.get((row, col)))", 1
    return False, [f"L{every[0].lineno}: the merge state of a decoded cell is set under a condition or not from the merge map entry of (row, col): "
                   f"{[_ast.unparse(c)[:70] for c in every]}"], 1

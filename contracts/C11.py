"""C11 - A1 and row/column addressing reach the same cell in every call; bounds hold.

Table invariant T-INV (ghost view grid = (nr, rl, at)):  len(grid) == num_rows, every row has num_cols cells,
num_rows >= 1, num_cols >= 1.
"""
import ast
import os

import z3

from pyvc import extract
from pyvc.ctx import VerifCtx, Contract, LoopSpec
from pyvc.plan import Plan, Lemma, BoundedStandIn
from pyvc.sym import Int, PObj, SInt, SOpt, SRef, SStr, fresh_name, lift, as_int_term, is_intlike, Unsupported
from pyvc.grid import SGrid, SRowVal

MAX_ROW = extract.module_const("constants", "MAX_ROW_COUNT")
MAX_COL = extract.module_const("constants", "MAX_COL_COUNT")


def T(v):
    return as_int_term(v) if is_intlike(v) else lift(v)


def tinv(grid, nrows, ncols):
    r = z3.Int("tr")
    return z3.And(grid.nr == nrows, nrows >= 1, ncols >= 1,
                  z3.ForAll([r], z3.Implies(z3.And(0 <= r, r < grid.nr), z3.Select(grid.rl, r) == ncols)))


def mk_table(ex):
    g = SGrid.fresh(ex, "data")
    nr, nc = ex.fresh("int", "num_rows"), ex.fresh("int", "num_cols")
    ex.assume(tinv(g, nr.t, nc.t))
    t = PObj("Table", {"_data": g, "num_rows": nr, "num_cols": nc, "_model": PObj("_NumbersModel", {}),
                       "_table_id": ex.fresh("int", "tid")})
    return t, g, nr, nc


def build():
    from contracts import C10
    p10 = C10.build()
    ctx = p10.ctx
    plan = Plan("C11", ctx)
    plan.lemmas = []  # C10's lemmas are proved under C10; here they are only usable as hints
    for lem in p10.lemmas:
        ctx.lemmas[lem.name] = lem
    plan.native_module = os.path.join(os.path.dirname(__file__), "C11_native.py")
    # the A1 decoder's acceptance language is re-checked here too (its functional correctness: C10's check)
    tot = ctx.contracts["xrefs:xl_cell_to_rowcol[total]"]
    tot.replay = lambda plan_, c, inputs, ob: {
        "module": "numbers_parser.xrefs", "path": "xl_cell_to_rowcol", "args": {"cell_str": inputs.get("cell_str")},
        "ghost": {}, "native_module": None, "requires": [r for r in c.requires if isinstance(r, str)],
        "ensures": [e for e in c.ensures if isinstance(e, str)], "raises": {"IndexError": None}, "may_raise": []}
    plan.targets.append(tot)
    ctx.class_fields["Cell"] = {"row": "int", "col": "int"}
    ENC = '("$" if ca else "") + colname(c) + ("$" if ra else "") + str(r + 1)'

    # ------------------------------------------------------------------ Table.cell
    def cell_entry(form):
        def entry(ex):
            t, g, nr, nc = mk_table(ex)
            env = {"self": t, "g0": g.copy(), "nr0": nr, "nc0": nc}
            if form == "rowcol":
                env["r"], env["c"] = ex.fresh("int", "r"), ex.fresh("int", "c")
                env["args"] = (env["r"], env["c"])
            elif form == "a1":
                env["r"], env["c"] = ex.fresh("nat", "r"), ex.fresh("nat", "c")
                env["ra"], env["ca"] = ex.fresh("bool", "ra"), ex.fresh("bool", "ca")
                s = ex.fresh("str", "ref")
                env["args"] = (s,)
                env["ref"] = s
            elif form == "anystr":
                s = ex.fresh("str", "ref")
                env["args"] = (s,)
                env["ref"] = s
            return env
        return entry

    def in_range(env):
        r, c = T(env["r"]), T(env["c"])
        return z3.And(r >= 0, r < env["nr0"].t, c >= 0, c < env["nc0"].t)

    def cell_post(ex, env):
        return lift(env["result"]) == env["g0"].cell(T(env["r"]), T(env["c"]))
    cell_post.__name__ = "returns grid[r][c]"

    cell_common = dict(safety="fork", result="ref:Cell", replay=lambda plan, c, inputs, ob: {
        "custom": "replay_cell", "native_module": plan.native_module, "inputs": inputs, "form": c.label})
    plan.target(Contract("document:Table.cell", label="rowcol", entry=cell_entry("rowcol"),
                         raises={"IndexError": lambda ex, env: z3.Not(in_range(env))}, ensures=[cell_post],
                         canaries=[lambda ex, env: lift(env["result"]) == env["g0"].cell(T(env["c"]), T(env["r"]))],
                         **cell_common))
    plan.target(Contract("document:Table.cell", label="a1", entry=cell_entry("a1"),
                         requires=["c <= 18277", "ref == " + ENC],
                         raises={"IndexError": lambda ex, env: z3.Not(in_range(env))}, ensures=[cell_post],
                         use_labels={"xrefs:xl_cell_to_rowcol": None}, **cell_common))

    def anystr_post(ex, env):
        fin = env["__final__"]
        r, c = T(fin["row"]), T(fin["col"])
        return z3.And(r >= 0, r < env["nr0"].t, c >= 0, c < env["nc0"].t, lift(env["result"]) == env["g0"].cell(r, c))
    anystr_post.__name__ = "for ANY string: returns grid[row][col] of an in-range decoded position, else IndexError"
    plan.target(Contract("document:Table.cell", label="anystr", entry=cell_entry("anystr"),
                         requires=["len(ref) <= 4000"], raises={"IndexError": None}, ensures=[anystr_post],
                         use_labels={"xrefs:xl_cell_to_rowcol": "total"}, safety="fork", result="ref:Cell"))

    def arity_entry(n):
        def entry(ex):
            t, g, nr, nc = mk_table(ex)
            return {"self": t, "args": tuple(ex.fresh("int", f"a{i}") for i in range(n))}
        return entry
    for n in (1, 3):
        plan.target(Contract("document:Table.cell", label=f"arity{n}", entry=arity_entry(n),
                             raises={"IndexError": lambda ex, env: z3.BoolVal(True)}, safety="fork"))

    # ------------------------------------------------------------------ add_row / add_column as callees (verified in C03)
    def grow(kind):
        def model(ex, args, kwargs, line):
            t = args[0]
            if len(args) > 1 or kwargs:
                raise Unsupported("add_row/add_column with arguments (C03)")
            g = t.fields["_data"]
            if kind == "row":
                new = z3.Const(fresh_name("newrow"), z3.ArraySort(Int, Int))
                g.at = z3.Store(g.at, g.nr, new)
                g.rl = z3.Store(g.rl, g.nr, T(t.fields["num_cols"]))
                g.nr = z3.simplify(g.nr + 1)
                t.fields["num_rows"] = SInt(z3.simplify(T(t.fields["num_rows"]) + 1))
            else:
                nc = T(t.fields["num_cols"])
                old_at, old_rl = g.at, g.rl
                g.at = z3.Const(fresh_name("at_addcol"), old_at.sort())
                g.rl = z3.Const(fresh_name("rl_addcol"), old_rl.sort())
                r, c_ = z3.Int(fresh_name("ar")), z3.Int(fresh_name("ac"))
                ex.assume(z3.ForAll([r], z3.Implies(z3.And(0 <= r, r < g.nr), z3.Select(g.rl, r) == nc + 1)))
                ex.assume(z3.ForAll([r, c_], z3.Implies(z3.And(0 <= r, r < g.nr, 0 <= c_, c_ < nc),
                                                       z3.Select(z3.Select(g.at, r), c_) == z3.Select(z3.Select(old_at, r), c_))))
                t.fields["num_cols"] = SInt(z3.simplify(nc + 1))
            return None
        return model
    plan.callee(Contract("document:Table.add_row", model=grow("row"), assumed=True,
                         note="add_row(): one blank row appended, num_rows+1, existing cells unchanged (proved in C03)"))
    plan.callee(Contract("document:Table.add_column", model=grow("col"), assumed=True,
                         note="add_column(): one blank column appended, num_cols+1, existing cells unchanged (proved in C03)"))

    # ------------------------------------------------------------------ _validate_cell_coords
    def val_entry(form):
        def entry(ex):
            t, g, nr, nc = mk_table(ex)
            v = ex.fresh("int", "value")
            env = {"self": t, "g0": g.copy(), "nr0": nr, "nc0": nc, "value": v}
            if form == "rowcol":
                env["r"], env["c"] = ex.fresh("int", "r"), ex.fresh("int", "c")
                env["args"] = (env["r"], env["c"], v)
            else:
                env["r"], env["c"] = ex.fresh("nat", "r"), ex.fresh("nat", "c")
                env["ra"], env["ca"] = ex.fresh("bool", "ra"), ex.fresh("bool", "ca")
                env["ref"] = ex.fresh("str", "ref")
                env["args"] = (env["ref"], v)
            return env
        return entry

    def bad_pos(env):
        r, c = T(env["r"]), T(env["c"])
        return z3.Or(r < 0, c < 0, r >= MAX_ROW, c >= MAX_COL)

    def val_post(ex, env):
        t = env["self"]
        g, g0 = t.fields["_data"], env["g0"]
        r, c = T(env["r"]), T(env["c"])
        nr1, nc1 = T(t.fields["num_rows"]), T(t.fields["num_cols"])
        nr0, nc0 = env["nr0"].t, env["nc0"].t
        i, j = z3.Int("vi"), z3.Int("vj")
        res = env["result"]
        return z3.And(T(res[0]) == r, T(res[1]) == c, T(res[2]) == env["value"].t,
                      nr1 == z3.If(r + 1 > nr0, r + 1, nr0), nc1 == z3.If(c + 1 > nc0, c + 1, nc0),
                      tinv(g, nr1, nc1),
                      z3.ForAll([i, j], z3.Implies(z3.And(0 <= i, i < nr0, 0 <= j, j < nc0), g.cell(i, j) == g0.cell(i, j))))
    val_post.__name__ = ("returns (row, col, value); table grown to exactly max(old, needed); T-INV holds; existing "
                         "cells untouched")

    def val_unchanged(ex, env):
        t = env["self"]
        g, g0 = t.fields["_data"], env["g0"]
        same = z3.And(g.nr == g0.nr, T(t.fields["num_rows"]) == env["nr0"].t, T(t.fields["num_cols"]) == env["nc0"].t)
        if not g.at.eq(g0.at):
            same = z3.And(same, g.at == g0.at)
        if not g.rl.eq(g0.rl):
            same = z3.And(same, g.rl == g0.rl)
        return same
    val_unchanged.__name__ = "a rejected position changes nothing"

    def rows_inv(ex, env):
        t = env["self"]
        g, g0 = t.fields["_data"], env["g0"]
        i, j = z3.Int("li"), z3.Int("lj")
        k = T(env["_i"])
        return z3.And(T(t.fields["num_rows"]) == env["nr0"].t + k, T(t.fields["num_cols"]) == env["nc0"].t,
                      tinv(g, T(t.fields["num_rows"]), T(t.fields["num_cols"])),
                      z3.ForAll([i, j], z3.Implies(z3.And(0 <= i, i < env["nr0"].t, 0 <= j, j < env["nc0"].t),
                                                   g.cell(i, j) == g0.cell(i, j))))

    def cols_inv(ex, env):
        t = env["self"]
        g, g0 = t.fields["_data"], env["g0"]
        i, j = z3.Int("ci"), z3.Int("cj")
        k = T(env["_j"])
        r = T(env["r"])
        nr_now = z3.If(r + 1 > env["nr0"].t, r + 1, env["nr0"].t)
        return z3.And(T(t.fields["num_rows"]) == nr_now, T(t.fields["num_cols"]) == env["nc0"].t + k,
                      tinv(g, T(t.fields["num_rows"]), T(t.fields["num_cols"])),
                      z3.ForAll([i, j], z3.Implies(z3.And(0 <= i, i < env["nr0"].t, 0 <= j, j < env["nc0"].t),
                                                   g.cell(i, j) == g0.cell(i, j))))

    def havoc_table(ex, env):
        t = env["self"]
        t.fields["_data"] = SGrid.fresh(ex, "data_h")
        t.fields["num_rows"] = ex.fresh("int", "num_rows_h")
        t.fields["num_cols"] = ex.fresh("int", "num_cols_h")

    val_loops = {1: LoopSpec([rows_inv], index="_i", havoc=[havoc_table]),
                 2: LoopSpec([cols_inv], index="_j", havoc=[havoc_table])}
    val_common = dict(safety="fork", loops=val_loops, exc_ensures=[val_unchanged],
                      replay=lambda plan, c, inputs, ob: {"custom": "replay_validate", "native_module": plan.native_module,
                                                          "inputs": inputs, "form": c.label})
    plan.target(Contract("document:Table._validate_cell_coords", label="rowcol", entry=val_entry("rowcol"),
                         raises={"IndexError": lambda ex, env: bad_pos(env)}, ensures=[val_post], **val_common))
    plan.target(Contract("document:Table._validate_cell_coords", label="a1", entry=val_entry("a1"),
                         requires=["c <= 18277", "ref == " + ENC],
                         raises={"IndexError": lambda ex, env: bad_pos(env)}, ensures=[val_post],
                         use_labels={"xrefs:xl_cell_to_rowcol": None}, **val_common))

    # ------------------------------------------------------------------ iter_rows / iter_cols
    def iter_entry(ex):
        t, g, nr, nc = mk_table(ex)
        env = {"self": t, "g0": g.copy(), "nr0": nr, "nc0": nc, "values_only": False}
        for p in ("min_row", "max_row", "min_col", "max_col"):
            env[p] = ex.fresh("optint", p)
        return env

    def bnd(env, p, default):
        v = env[p]
        return z3.If(v.isnone, default, v.val.t)

    def bounds(env):
        return (bnd(env, "min_row", z3.IntVal(0)), bnd(env, "max_row", env["nr0"].t - 1),
                bnd(env, "min_col", z3.IntVal(0)), bnd(env, "max_col", env["nc0"].t - 1))

    def iter_bad(ex, env):
        r0, r1, c0, c1 = bounds(env)
        return z3.Or(r0 < 0, r0 >= env["nr0"].t, r1 < 0, r1 >= env["nr0"].t, c0 < 0, c0 >= env["nc0"].t, c1 < 0,
                     c1 >= env["nc0"].t)

    def iter_post(by_rows):
        def post(ex, env):
            y, g0 = env["result"], env["g0"]
            r0, r1, c0, c1 = bounds(env)
            h = z3.If(r1 >= r0, r1 - r0 + 1, 0)
            w = z3.If(c1 >= c0, c1 - c0 + 1, 0)
            k, j = z3.Int("yk"), z3.Int("yj")
            if by_rows:
                return z3.And(y.nr == h, z3.ForAll([k], z3.Implies(z3.And(0 <= k, k < h), z3.Select(y.rl, k) == w)),
                              z3.ForAll([k, j], z3.Implies(z3.And(0 <= k, k < h, 0 <= j, j < w),
                                                           y.cell(k, j) == g0.cell(r0 + k, c0 + j))))
            return z3.And(y.nr == w, z3.ForAll([k], z3.Implies(z3.And(0 <= k, k < w), z3.Select(y.rl, k) == h)),
                          z3.ForAll([k, j], z3.Implies(z3.And(0 <= k, k < w, 0 <= j, j < h),
                                                       y.cell(k, j) == g0.cell(r0 + j, c0 + k))))
        post.__name__ = "yields exactly grid[min_row..max_row][min_col..max_col] in order (0 is an explicit bound)"
        return post

    def nothing_yielded(ex, env):
        return env["__final__"]["__yielded__"].nr == 0
    nothing_yielded.__name__ = "IndexError is raised before anything is yielded"

    def iter_inv(by_rows):
        def inv(ex, env):
            y, g0 = env["__yielded__"], env["g0"]
            r0, r1, c0, c1 = T(env["min_row"]), T(env["max_row"]), T(env["min_col"]), T(env["max_col"])
            idx = T(env["_i"])
            h = z3.If(r1 >= r0, r1 - r0 + 1, 0)
            w = z3.If(c1 >= c0, c1 - c0 + 1, 0)
            k, j = z3.Int("ik"), z3.Int("ij")
            if by_rows:
                return z3.And(y.nr == idx, z3.ForAll([k], z3.Implies(z3.And(0 <= k, k < idx), z3.Select(y.rl, k) == w)),
                              z3.ForAll([k, j], z3.Implies(z3.And(0 <= k, k < idx, 0 <= j, j < w),
                                                           y.cell(k, j) == g0.cell(r0 + k, c0 + j))))
            return z3.And(y.nr == idx, z3.ForAll([k], z3.Implies(z3.And(0 <= k, k < idx), z3.Select(y.rl, k) == h)),
                          z3.ForAll([k, j], z3.Implies(z3.And(0 <= k, k < idx, 0 <= j, j < h),
                                                       y.cell(k, j) == g0.cell(r0 + j, c0 + k))))
        return inv

    for fn, by_rows in (("iter_rows", True), ("iter_cols", False)):
        plan.target(Contract(
            f"document:Table.{fn}", entry=iter_entry, raises={"IndexError": iter_bad}, ensures=[iter_post(by_rows)],
            exc_ensures=[nothing_yielded], yield_grid="Cell", safety="fork",
            inline={"document:Table.rows"},
            loops={1: LoopSpec([iter_inv(by_rows)], index="_i", modifies=["__yielded__"])},
            replay=lambda plan, c, inputs, ob, fn=fn: {"custom": "replay_iter", "native_module": plan.native_module,
                                                       "inputs": inputs, "fn": fn}))

    # ------------------------------------------------------------------ call-site obligation (syntactic, complete)
    def call_sites():
        cls = extract.find_class("document", "Table")
        bad = []
        n = 0
        for f in cls.body:
            if isinstance(f, ast.FunctionDef) and f.args.vararg is not None and f.args.vararg.arg == "args" \
                    and f.name not in ("cell", "_validate_cell_coords"):
                n += 1
                calls = [c for c in ast.walk(f) if isinstance(c, ast.Call) and isinstance(c.func, ast.Attribute)
                         and isinstance(c.func.value, ast.Name) and c.func.value.id == "self"
                         and c.func.attr in ("cell", "_validate_cell_coords")
                         and any(isinstance(a, ast.Starred) and ast.unparse(a.value) == "args" for a in c.args)]
                first = min((c.lineno for c in calls), default=10 ** 9)
                # `args` may be re-bound to the remaining values by the decoding call; only uses before it count
                direct = [s for s in ast.walk(f) if isinstance(s, ast.Subscript) and ast.unparse(s.value) == "args"
                          and s.lineno < first]
                if not calls or direct:
                    bad.append({"method": f.name, "calls": len(calls), "direct_args_subscripts": len(direct)})
        return (not bad), (bad or "every *args method of Table decodes its position only via cell()/_validate_cell_coords()"), n
    plan.ground.append(("position-args-only-through-cell-or-validate", call_sites))

    plan.assumptions += [
        "T-INV as precondition of every method (rectangular grid, len == num_rows, sizes >= 1); rows are not aliased",
        "add_row()/add_column() without arguments enter through their grid contracts (proved in C03, assumed here)",
        "xl_cell_to_rowcol enters through its C10 contracts (proved there)",
        "values_only=False in the iterator contracts (the values_only=True projection reads cell.value only)",
        "position-taking methods other than cell/_validate_cell_coords: only the syntactic call-site obligation",
    ]
    plan.trusted += ["pyvc AST->SMT translation (cross-checked against CPython)", "z3 5.1.0 (quantified VCs)", "cvc5 1.0.3"]
    for c_ in plan.targets:
        if getattr(c_, "search", None) is None and c_.qual.startswith("document:Table.") and getattr(c_, "home", plan) is plan:
            c_.search = lambda plan_, c: {"custom": "search_coords", "native_module": plan_.native_module}
    return plan

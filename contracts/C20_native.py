"""Native side of C20: a few stand-in cases to find a concrete failing grid."""
import os
import sys
import warnings

sys.path.insert(0, os.path.dirname(os.path.dirname(os.path.abspath(__file__))))


def search_csv(job):
    from bounded import c20_csv as S
    warnings.simplefilter("ignore")
    for seed in (1, 2, 3, 4, 5, 6, 7, 8):
        case = {"kind": "grid", "seed": seed, "n": 25, "max_rows": 8, "max_cols": 5, "hostile": seed % 2 == 1, "distinct_header": "names"}
        r = S.run_case(case)
        if r and not r.get("ok"):
            return {"violated": True, "detail": r["detail"], "job": {"custom": "replay_case", "case": case}}
    return {"violated": False}


def replay_case(job):
    from bounded import c20_csv as S
    r = S.dispatch(job["case"])
    return {"violated": bool(r and not r.get("ok")), "detail": (r or {}).get("detail", "")}


NATIVE = {}

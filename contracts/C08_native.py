"""Native side of C08: the real rendering methods on a real Formula stack; number literal text read back as a double."""
import math


def _formula(stack):
    from numbers_parser.formula import Formula
    f = Formula(None, 1, 0, 0)
    f._stack = list(stack)
    return f


BINARY_GLYPH = {"add": "+", "sub": "-", "mul": "\u00d7", "div": "\u00f7", "power": "^", "concat": "&", "equals": "=", "not_equals": "\u2260",
                "less_than": "<", "greater_than": ">", "less_than_or_equal": "\u2264", "greater_than_or_equal": "\u2265"}


def replay_binary(job):
    """the operand pushed first is the left operand: stack [.., L, R] -> [.., L <glyph> R]"""
    m = job["method"]
    for stack in (["L", "R"], ["x", "A1", "2"], ["", "R"], ["(1+2)", "3"]):
        f = _formula(stack)
        try:
            getattr(f, m)()
        except Exception as e:  # noqa: BLE001
            return {"violated": True, "detail": f"Formula.{m} on stack {stack} raised {type(e).__name__}: {e}"}
        want = stack[:-2] + [stack[-2] + BINARY_GLYPH[m] + stack[-1]]
        if f._stack != want:
            return {"violated": True, "detail": f"Formula.{m} on stack {stack} leaves {f._stack}, the operator node denotes {want}"}
    return {"violated": False, "detail": "first-pushed operand is rendered on the left"}


def search_stack_op(job):
    """every stack transition of the renderer on concrete stacks: [.., a1..ak] -> [.., text(a1..ak)], the rest of the stack untouched"""
    from types import SimpleNamespace as NS
    from numbers_parser.formula import FUNCTION_MAP
    import warnings
    warnings.simplefilter("ignore")
    fid = sorted(FUNCTION_MAP)[0]
    ops = [(m, 2, None, (lambda g: lambda a: a[0] + g + a[1])(g)) for m, g in BINARY_GLYPH.items()]
    ops += [("negate", 1, None, lambda a: "-" + a[0]), ("percent", 1, None, lambda a: a[0] + "%")]
    for k in range(0, 5):
        ops.append(("list", k, NS(AST_list_node_numArgs=k), lambda a: "(" + ",".join(a) + ")"))
        ops.append(("function", k, NS(AST_function_node_numArgs=k, AST_function_node_index=fid), lambda a: FUNCTION_MAP[fid] + "(" + ",".join(a) + ")"))
    from numbers_parser.generated import TSCEArchives_pb2 as A
    N = A.ASTNodeArrayArchive.ASTNodeArchive
    for txt in ("", "plain", 'a"b', '""', "x,y)"):
        ops.append(("string", 0, N(AST_string_node_string=txt), (lambda t: lambda a: '"' + t.replace('"', '""') + '"')(txt)))
    for b in (True, False):
        ops.append(("boolean", 0, N(AST_boolean_node_boolean=b), (lambda v: lambda a: "TRUE" if v else "FALSE")(b)))
        ops.append(("boolean", 0, N(AST_token_node_boolean=b), (lambda v: lambda a: "TRUE" if v else "FALSE")(b)))
    ops.append(("empty", 0, None, lambda a: ""))
    only = job.get("method")
    for m, k, node, text in ops:
        if only and m != only:
            continue
        for below in ([], ["keep"], ["k1", "k2"]):
            stack = below + [f"a{i}" for i in range(k)]
            f = _formula(stack)
            try:
                getattr(f, m)(0, 0, node)
            except Exception as e:  # noqa: BLE001
                return {"violated": True, "detail": f"Formula.{m} (arity {k}) on stack {stack} raised {type(e).__name__}: {e}"}
            want = below + [text(stack[len(below):])]
            if f._stack != want:
                return {"violated": True, "detail": f"Formula.{m} (arity {k}) on stack {stack} leaves {f._stack}; the node denotes {want}"}
    return {"violated": False}

NUMBER_LITERALS = [0.5, 2.5, 0.1, 1.25, 123456789.25, 3.141592653589793, 0.30000000000000004, 1234.5678901234567, 2.718281828459045,
                   0.1 + 0.7, 1 / 3, 2 / 3, 1e15 + 0.3, 4503599627370497.5, 1e-5, 1.25e-7, 5e-324, 2.2250738585072014e-308, 1.7976931348623157e-10,
                   100.0, 7.0, 0.0, 9007199254740991.0]


def search_number_text(job):
    """number_to_str(v) must denote v: read back by float() it is the same double (literals whose repr has a positive exponent are the
    known finding F-C08-1 and are left to the bounded stand-in, which classifies them)"""
    from numbers_parser.formula import number_to_str
    import random
    rnd = random.Random(8)
    vals = list(NUMBER_LITERALS) + [rnd.uniform(0, 10 ** rnd.randrange(-8, 15)) for _ in range(400)]
    for v in vals:
        if "e+" in repr(v):
            continue
        try:
            s = number_to_str(v)
        except Exception as e:  # noqa: BLE001
            return {"violated": True, "detail": f"number_to_str({v!r}) raised {type(e).__name__}: {e}", "job": {"custom": "replay_number_text", "v": v}}
        try:
            back = float(s)
        except ValueError:
            back = math.nan
        if back != v or "e" in s.lower():
            return {"violated": True, "detail": f"number_to_str({v!r}) = {s!r}, which denotes {back!r}", "job": {"custom": "replay_number_text", "v": v}}
    return {"violated": False}


def replay_number_text(job):
    from numbers_parser.formula import number_to_str
    v = job["v"]
    s = number_to_str(v)
    try:
        back = float(s)
    except ValueError:
        back = math.nan
    return {"violated": back != v or "e" in s.lower(), "detail": f"number_to_str({v!r}) = {s!r}, which denotes {back!r}"}


NATIVE = {}

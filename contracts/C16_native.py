"""Native side of C16: looks for a concrete document on which geometry does not survive a save (small runs of the stand-in's cases)."""
import os
import sys
import warnings

sys.path.insert(0, os.path.dirname(os.path.dirname(os.path.abspath(__file__))))


def _run(cases):
    from bounded import c16_geometry as Gm
    warnings.simplefilter("ignore")
    for case in cases:
        try:
            r = Gm.run_case(case)
        except Exception as e:  # noqa: BLE001
            r = {"detail": f"raised {type(e).__name__}: {e}"}
        if r and not r.get("ok"):
            return {"violated": True, "detail": r["detail"], "job": {"custom": "replay_case", "case": case}}
    return {"violated": False}


def search_geometry(job):
    from bounded import docsnap
    data = os.path.dirname(docsnap.fixtures()[0])
    cases = [{"path": os.path.join(data, f), "query": q, "cycles": 2} for f in ("issue-69b.numbers", "test-extra-borders.numbers", "issue-14.numbers")
             for q in (False, True, "partial") if os.path.exists(os.path.join(data, f))]
    cases += [{"set": ["resize"], "resize": os.path.join(data, f), "seed": 0, "query": False, "cycles": 1} for f in ("test-pivot.numbers", "test-9.numbers")
              if os.path.exists(os.path.join(data, f))]
    for i, g in enumerate((["row_height", "borders"], ["col_width", "borders"], ["borders"], ["row_height", "col_width"])):
        for q in (False, True):
            cases.append({"set": g, "seed": i, "query": q, "cycles": 2})
    return _run(cases)


def replay_case(job):
    return _run([job["case"]])


NATIVE = {}

"""C09 - ScopedNameRefCache._calculate_name_scopes under contract: which header labels of a table are usable names.

    axis COLUMN: for every column idx of the table: its scope is None if idx is a header column, if it has no label, or if its label occurs
    more than once among the labels of the BODY columns (num_header_cols .. number_of_columns-1); otherwise its label.  Axis ROW likewise
    with rows (num_header_rows .. number_of_rows-1).  When the table has no header row (for columns) / header column (for rows) nothing is named.

The label of a line and "how often does a label occur in a range of lines" are ghost functions; the contract pins the RANGE the duplicates are
counted over - the body of the same axis - and the per-line decision."""
import z3

from pyvc.ctx import Contract, LoopSpec
from pyvc.sym import Custom, PObj, SInt, SOpt, SStr, SBool, Unsupported, fresh_name, wrap, as_int_term, Int, Str, Bool, lift


def T(v):
    return as_int_term(v)


def add(plan, ctx, srch):
    LBL = z3.Function("C09_line_label", Int, Str)
    HAS = z3.Function("C09_line_has_label", Int, Bool)
    CNT = z3.Function("C09_label_count_in_lines", Int, Int, Str, Int)   # (first line, end line, label) -> occurrences
    ctx.extra_globals["TableAxis"] = PObj("enum", {"ROW": 1, "COLUMN": 2})

    class AllNames(Custom):
        def __init__(self, start, end):
            self.start, self.end = start, end

    class Names(Custom):
        def __init__(self):
            self.n = z3.IntVal(0)

        def method(self, ex, name, args, kwargs, line):
            if name != "append":
                raise Unsupported(f"names.{name}")
            self.n = self.n + 1

        def length(self, ex):
            return self.n

        def getitem(self, ex, idx, line):
            return SOpt(z3.Bool(fresh_name("name_isnone")), SStr(z3.String(fresh_name("name"))))

    class Scopes(Custom):
        def __init__(self):
            self.last = None

        def setitem(self, ex, key, v, line):
            self.last = (key, v)

    class Counters(Custom):
        def getitem(self, ex, idx, line):
            return Counters() if not isinstance(idx, (SOpt, SStr, str)) and idx is not None and not isinstance(idx, type(None)) and hasattr(idx, "t") and idx.t.sort() == Int else wrap(z3.Int(fresh_name("refs")))

        def setitem(self, ex, key, v, line):
            return None

    def entry(axis):
        def e(ex):
            nhr, nhc, nr, nc = (ex.fresh("int", n) for n in ("num_header_rows", "num_header_cols", "number_of_rows", "number_of_columns"))
            ex.assume(z3.And(T(nhr) >= 0, T(nhc) >= 0, T(nr) >= T(nhr), T(nc) >= T(nhc)))
            model = PObj("ModelNS", {"g": {"num_header_rows": nhr, "num_header_cols": nhc, "number_of_rows": nr, "number_of_columns": nc}})
            cache = PObj("NameCacheNS", {"model": model, "doc_name_refs": Counters(), "sheet_name_refs": Counters()})
            return {"self": cache, "sheet_id": ex.fresh("int", "sheet_id"), "table_id": ex.fresh("int", "table_id"), "axis": 1 if axis == "row" else 2,
                    "g_nhr": nhr, "g_nhc": nhc, "g_nr": nr, "g_nc": nc, "g_scopes": Scopes(), "g_names": Names()}
        return e
    mm = ctx.method_models = getattr(ctx, "method_models", {})
    for nm in ("num_header_rows", "num_header_cols", "number_of_rows", "number_of_columns"):
        mm[("ModelNS", nm)] = (lambda n: lambda ex, o, a, k, l: o.fields["g"][n])(nm)

    def label_of(ex, o, a, k, l):
        i = T(a[1])
        return SOpt(z3.Not(HAS(i)), SStr(LBL(i)))
    mm[("NameCacheNS", "_row_data")] = label_of
    mm[("NameCacheNS", "_column_data")] = label_of

    def exact_count(ex, o, a, k, l):
        pool, name = a
        if not isinstance(pool, AllNames):
            ex.oblige(f"duplicates-counted-over-the-labels-of-the-axis@L{l}", z3.BoolVal(False), "ghost", l)
            return wrap(z3.IntVal(0))
        nm = name.val.t if isinstance(name, SOpt) else lift(name)
        return wrap(CNT(pool.start, pool.end, nm))
    mm[("NameCacheNS", "_exact_count")] = exact_count

    def all_names(ex, env):
        return AllNames(T(env["range_start"]), T(env["range_end"]))

    def step(axis):
        def st(ex, env):
            sc = env["scopes"] if isinstance(env.get("scopes"), Scopes) else None
            if sc is None or sc.last is None:
                return z3.BoolVal(False)
            key, v = sc.last
            i = T(env["_i"])
            first = T(env["g_nhr"]) if axis == "row" else T(env["g_nhc"])
            end = T(env["g_nr"]) if axis == "row" else T(env["g_nc"])
            named = z3.And(i >= first, HAS(i), CNT(first, end, LBL(i)) <= 1)
            if v is None:
                return z3.And(T(key) == i, z3.Not(named))
            vt = v.val.t if isinstance(v, SOpt) else lift(v)
            isnone = v.isnone if isinstance(v, SOpt) else z3.BoolVal(False)
            return z3.And(T(key) == i, named, z3.Not(isnone), vt == LBL(i))
        return st

    for axis in ("row", "col"):
        plan.target(Contract("xrefs:ScopedNameRefCache._calculate_name_scopes", label=axis, entry=entry(axis), safety="fork", search=srch,
                             ensures=[lambda ex, env: z3.BoolVal(True)],
                             opaque={"[data_lookup(table_id, idx) for idx in range(range_start, range_end)]": all_names,
                                     "{idx: None for idx in range(range_end)}": lambda ex, env: Scopes()},
                             local_views={"scopes": lambda ex, env: Scopes(), "names": lambda ex, env: Names()},
                             loops={1: LoopSpec([lambda ex, env: z3.BoolVal(True)], index="_i", steps=[step(axis)],
                                                havoc=[lambda ex, env: setattr(env["names"], "n", z3.Int(fresh_name("n_names"))) if isinstance(env.get("names"), Names) else None]),
                                    2: LoopSpec([lambda ex, env: z3.BoolVal(True)], index="_j")}))

#!/bin/sh
# Applies every seeded change in turn to /repo, runs the property's quick check, records what fired, undoes the change.
# Writes seeded/MATRIX.json.  /repo must be clean; evidence files are overwritten by these runs: run tools_refresh.sh afterwards.
cd "$(dirname "$0")" || exit 3
test -z "$(git -C /repo status --short | grep -v issue-50)" || { echo "/repo is dirty"; exit 9; }
out=seeded/MATRIX.json
echo "{" > $out.tmp
first=1
for d in seeded/C*-[ABCDEFG]; do
  id=$(basename $d); prop=${id%-*}
  status=$(python3 -c "import json;print(json.load(open('$d/meta.json')).get('status','')[:11])")
  if ! git -C /repo apply --check "$(realpath $d/patch.diff)" 2>/dev/null; then
    res="\"applies\": false, \"exit\": null, \"fired\": []"
  else
    git -C /repo apply "$(realpath $d/patch.diff)"
    log=$(./check $prop 2>&1); rc=$?
    git -C /repo checkout -- .
    fired=$(printf '%s\n' "$log" | grep '^VIOLATION' | sed -E 's/.*replay=[^ ]*\/([^/ ]*)\.json( no-failing-input-found)?/\1\2/' | python3 -c "import sys,json;print(json.dumps([l.strip() for l in sys.stdin if l.strip()]))")
    res="\"applies\": true, \"exit\": $rc, \"fired\": $fired"
  fi
  [ $first = 1 ] || echo "," >> $out.tmp
  first=0
  printf ' "%s": {"status": "%s", %s}' "$id" "$status" "$res" >> $out.tmp
  echo "$id done: $res" | cut -c1-200
done
echo "" >> $out.tmp; echo "}" >> $out.tmp
python3 -c "import json;json.load(open('$out.tmp'))" && mv $out.tmp $out
git -C /repo status --short | grep -v issue-50
